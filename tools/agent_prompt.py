import sys
pid=sys.argv[1]
prop=open(f"/tmp/seed/prop-{pid}.txt").read()
print(f"""You are helping to evaluate a verification effort for the Go project TheCacophonyProject/thermal-recorder (a Raspberry Pi daemon that reads thermal camera frames, detects warm motion and writes CPTV recordings). Your job is to act as a "bug seeder": produce ONE realistic, subtle code change that BREAKS the semantic property below while the project still compiles and its existing test suite still passes.

You have your own scratch git worktree of the repository at /tmp/seed/{pid}/wt  (work ONLY there and in /tmp/seed/{pid}/out; never touch /repo or /verif, and do not read anything under /verif).

THE PROPERTY ({pid})
{prop}

REQUIREMENTS
1. The change must compile (`go build ./...`) and ALL existing tests must still pass:
   cd /tmp/seed/{pid}/wt && export GOFLAGS=-mod=mod GOPROXY=off GOSUMDB=off GOTOOLCHAIN=local && go test -vet=off -count=1 ./...
   (the sandbox is offline; always export those variables first; the suite takes about 10 s; a stray untracked file cmd/thermal-recorder/config.toml.lock may appear - ignore and do not include it in the patch).
2. The change must look like something a developer could plausibly write (a refactor gone slightly wrong, an off-by-one, a reordered statement, a condition weakened, a value cached/hoisted, two sites that each look fine alone, ...). Keep it small (a few lines). Do NOT edit or delete existing tests.
3. IMPORTANT: prefer a change that needs something SPECIFIC to manifest - a particular multi-step sequence of operations, a particular configuration (e.g. an unusual but legal parameter value), an unusual input, a fault/error at a particular point, a particular interleaving or crash point - NOT one that ordinary use would expose at once. The existing tests must not catch it.
4. Provide a DEMONSTRATION: a Go test file (or small Go program) that FAILS with your change applied and PASSES on the unmodified code. Put the demo test in the appropriate package directory of the worktree while you develop, verify both directions yourself (with the change: fails; without the change: passes - to remove and restore your change use `git diff > /tmp/seedX.diff; git apply -R /tmp/seedX.diff; ...; git apply /tmp/seedX.diff`, do NOT use `git stash`: the stash is shared between all worktrees of the repository), then copy it to the out directory. The demo must not be part of the patch.

DELIVERABLES (write them into /tmp/seed/{pid}/out/):
 - patch.diff : output of `git -C /tmp/seed/{pid}/wt diff` containing ONLY the property-breaking change to non-test source files (not the demo, not config.toml.lock).
 - the demo file(s), e.g. demo_test.go, plus a line in notes saying which package directory it belongs in and the exact command to run it.
 - notes.md : which property clause is broken, what specific circumstances are needed for it to manifest, what you ran and what you observed in both directions (with/without the change).
When you are done, leave the worktree with the patch applied and the demo file removed from it (only in out/). Reply with a short summary: the idea of the change, what it needs to manifest, and the verification you did.""")
