import sys
pid=sys.argv[1]
base=open(f"/tmp/seed/prompt-{pid}.txt").read() if False else None
import subprocess
p=subprocess.run(["python3","/tmp/seed/agent_prompt.py",pid],capture_output=True,text=True).stdout
p=p.replace(f"/tmp/seed/{pid}/", f"/tmp/seed2/{pid}/")
p=p.replace("REQUIREMENTS\n", "REQUIREMENTS\n0. Avoid the single most obvious one-line change for this property; look for a less obvious mechanism (a different function, a different clause of the statement, an interaction between two pieces of code, state that accumulates over many steps, an unusual but legal configuration value, or an error path).\n")
print(p)
