import sys,subprocess
pid=sys.argv[1]
p=subprocess.run(["python3","/tmp/seed/agent_prompt.py",pid],capture_output=True,text=True).stdout
p=p.replace(f"/tmp/seed/{pid}/", f"/tmp/seed7/{pid}/")
p=p.replace("REQUIREMENTS\n", "REQUIREMENTS\n0. Put the change into the GLUE / WIRING code of the daemons rather than into the core algorithm: how cmd/thermal-recorder/main.go (handleConn, frameParser), config.go, service.go, snapshot.go, cptvfilerecorder.go, boson.go, recorder/recorderconfig.go, headers/ or cmd/thermal-writer/*.go construct, configure, connect and call the core packages (which value is passed where, which object is shared or re-created per connection, in which order things are initialised, which unit a setting is converted to). The core packages (motion/, throttle/, loglimiter/) must stay untouched; each of them, tested on its own, would still be correct - the daemon as wired together is not.\n")
print(p)
