import sys,subprocess
pid=sys.argv[1]
p=subprocess.run(["python3","/tmp/seed/agent_prompt.py",pid],capture_output=True,text=True).stdout
p=p.replace(f"/tmp/seed/{pid}/", f"/tmp/seed5/{pid}/")
p=p.replace("REQUIREMENTS\n", "REQUIREMENTS\n0. Disguise the change as a plausible PERFORMANCE OPTIMISATION or CLEAN-UP REFACTORING of working code: hoisting work out of a loop, an early exit / fast path, batching, reusing a buffer, merging two similar functions, replacing a recomputation by an incrementally maintained value, simplifying a condition that 'can never happen'. The optimisation must be wrong only in a corner that ordinary use and the existing tests do not reach (a particular phase/position of a cyclic buffer, the first or last element, an empty or size-1 case, a value exactly at a boundary, an event arriving in an unusual state).\n")
print(p)
