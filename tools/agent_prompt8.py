# Round 8 prompt generator (non-initial-state / two-site seeds). Usage: python3 tools/agent_prompt8.py
# Writes /tmp/seed8/prompt-<ID>.txt and creates a scratch worktree /tmp/seed8/<ID>/wt per property.
import json,subprocess,os
props={}
for l in open('/verif/properties.jsonl'):
    p=json.loads(l); props[p['id']]=p
os.makedirs('/tmp/seed',exist_ok=True)
for pid in ['C01','C02','C03','C06','C09','C17','C19','C20']:
    p=props[pid]
    os.makedirs(f'/tmp/seed8/{pid}/out',exist_ok=True)
    txt=f"{p['title']}\n\n{p['statement']}\n\nQuantified over: {p['quantifier']['text']}\n\nCode anchors: {', '.join(p['anchors']['files'])}"
    open(f'/tmp/seed/prop-{pid}.txt','w').write(txt)
    out=subprocess.run(['python3','/verif/tools/agent_prompt.py',pid],capture_output=True,text=True).stdout
    out=out.replace(f'/tmp/seed/{pid}/',f'/tmp/seed8/{pid}/')
    out=out.replace("REQUIREMENTS\n","REQUIREMENTS\n0. Aim for a change whose effect only shows from a NON-INITIAL state reached by several earlier operations (e.g. after a second recording, after a wrap-around, after a reset or bad frame followed by normal frames, after a refused start, after a counter reached some value), or one made of TWO cooperating edits that each look harmless alone. Avoid the single most obvious one-line change (a flipped comparison or an off-by-one on the main path); a short scenario starting from a fresh object with default-like settings should NOT expose it.\n")
    open(f'/tmp/seed8/prompt-{pid}.txt','w').write(out)
    subprocess.run(['git','-C','/repo','worktree','add','--detach','-q',f'/tmp/seed8/{pid}/wt','HEAD'],check=True)
