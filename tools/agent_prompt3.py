import sys,subprocess
pid=sys.argv[1]
p=subprocess.run(["python3","/tmp/seed/agent_prompt.py",pid],capture_output=True,text=True).stdout
p=p.replace(f"/tmp/seed/{pid}/", f"/tmp/seed3/{pid}/")
p=p.replace("REQUIREMENTS\n", "REQUIREMENTS\n0. Make the change one of these kinds (pick what fits this property best): (a) state carried across calls, recordings or connections that goes stale (a cached/memoised value, a package-level variable, a field not reset); (b) two cooperating code sites that each look fine alone; (c) a boundary case of a legal but unusual configuration value or input size; (d) a wrong behaviour only on an error/cleanup path or only after a particular earlier event. Avoid simply flipping a comparison operator or deleting a line.\n")
print(p)
