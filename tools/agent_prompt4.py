import sys,subprocess
pid,tag,hint=sys.argv[1],sys.argv[2],sys.argv[3]
p=subprocess.run(["python3","/tmp/seed/agent_prompt.py",pid],capture_output=True,text=True).stdout
p=p.replace(f"/tmp/seed/{pid}/", f"/tmp/seed4/{pid}{tag}/")
p=p.replace("REQUIREMENTS\n", "REQUIREMENTS\n0. "+hint+"\n")
print(p)
