import sys,subprocess
pid=sys.argv[1]
p=subprocess.run(["python3","/tmp/seed/agent_prompt.py",pid],capture_output=True,text=True).stdout
p=p.replace(f"/tmp/seed/{pid}/", f"/tmp/seed6/{pid}/")
p=p.replace("REQUIREMENTS\n", "REQUIREMENTS\n0. Make the change manifest only through an INTERACTION: either between two features that are each fine alone (e.g. a recording in progress when another event arrives, a state left over from an earlier recording/connection/reset influencing a later one, two configuration parameters in an unusual but legal relation to each other), or only from a NON-INITIAL state (the first occurrence after start-up is handled correctly, a later occurrence is not). A reviewer who exercises each feature once from a fresh start must see nothing wrong.\n")
print(p)
