#!/usr/bin/env python3
"""Mutation sweep: every syntactic mutant (kit/cmd/vmutate) of the anchored source files that still
builds and still passes the repository's own test suite is run against the checks of the
properties anchored in that file (quick tier, cheapest first, until one reports a VIOLATION).
Never touches /repo: works in scratch worktrees under /tmp, removed at the end.

usage: mutsweep.py phase1 | phase2 | report
  phase1: build + existing suite for every mutant  -> mutsweep/phase1.jsonl
  phase2: checks for the suite-survivors           -> mutsweep/phase2.jsonl
"""
import json, os, subprocess, sys, shutil, concurrent.futures as cf, threading

VERIF = os.path.dirname(os.path.dirname(os.path.abspath(__file__)))
OUT = os.path.join(VERIF, "mutsweep")
ENV = dict(os.environ, GOFLAGS="-mod=mod", GOPROXY="off", GOSUMDB="off", GOTOOLCHAIN="local")
# file -> (functions or None for all, checks cheapest first)
TARGETS = {
 "motion/frameloop.go": (None, ["C19", "C16", "C02", "C01"]),
 "motion/motionprocessor.go": (None, ["C03", "C13", "C04", "C17", "C12", "C01", "C02", "C16", "C14"]),
 "motion/motion.go": (None, ["C09", "C07", "C15", "C08"]),
 "throttle/throttled_recorder.go": (None, ["C06", "C05"]),
 "loglimiter/loglimiter.go": (None, ["C20"]),
 "recorder/recorderconfig.go": (None, ["C03", "C11"]),
 "headers/headerinfo.go": (None, ["C14", "C11"]),
 "cmd/thermal-recorder/cptvfilerecorder.go": (None, ["C11", "C10", "C12", "C04"]),
 "cmd/thermal-recorder/main.go": (["handleConn", "frameParser"], ["C14", "C11", "C13", "C16"]),
 "cmd/thermal-recorder/boson.go": (None, ["C13", "C11"]),
 "cmd/thermal-recorder/snapshot.go": (["newSnapshot", "newSnapshotRecording"], ["C16", "C17"]),
 "cmd/thermal-recorder/service.go": (["TakeSnapshot", "CameraInfo", "TakeTestRecording"], ["C16"]),
 "cmd/thermal-writer/main.go": (["handleConn", "writer"], ["C18"]),
 "cmd/thermal-writer/thermalraw.go": (None, ["C18"]),
 "cmd/thermal-writer/bufferedfile.go": (None, ["C18"]),
}

def sh(cmd, cwd=None, timeout=None, env=ENV):
    p = subprocess.run(cmd, cwd=cwd, env=env, shell=isinstance(cmd, str), capture_output=True, text=True, timeout=timeout)
    return p.returncode, p.stdout + p.stderr

def mutants():
    vm = "/tmp/vmutate-sweep"
    rc, out = sh(["go", "build", "-o", vm, "./cmd/vmutate"], cwd=os.path.join(VERIF, "kit"))
    assert rc == 0, out
    ms = []
    for f, (funcs, checks) in TARGETS.items():
        rc, out = sh([vm, f], cwd="/repo")
        assert rc == 0, out
        for ln in out.splitlines():
            m = json.loads(ln)
            if funcs and m["func"] not in funcs:
                continue
            if m["func"] in ("String", "main", "runMain", "logConfig"):
                continue
            m["id"] = "%s:%d:%d:%s" % (f, m["line"], m["off"], m["new"][:12])
            ms.append(m)
    return ms

def worktree(name):
    wt = "/tmp/mutsweep-" + name
    sh(["git", "-C", "/repo", "worktree", "remove", "--force", wt])
    shutil.rmtree(wt, ignore_errors=True)
    rc, out = sh(["git", "-C", "/repo", "worktree", "add", "--detach", "-q", wt, "HEAD"])
    assert rc == 0, out
    return wt

def drop(wt):
    sh(["git", "-C", "/repo", "worktree", "remove", "--force", wt])
    shutil.rmtree(wt, ignore_errors=True)

def apply(wt, m):
    p = os.path.join(wt, m["file"])
    src = open(os.path.join("/repo", m["file"]), "rb").read()
    open(p, "wb").write(src[:m["off"]] + m["new"].encode() + src[m["off"] + m["len"]:])

def restore(wt, m):
    shutil.copyfile(os.path.join("/repo", m["file"]), os.path.join(wt, m["file"]))

def phase1():
    ms = mutants()
    os.makedirs(OUT, exist_ok=True)
    done = {}
    p1 = os.path.join(OUT, "phase1.jsonl")
    if os.path.exists(p1):
        for ln in open(p1):
            r = json.loads(ln); done[r["id"]] = r
    todo = [m for m in ms if m["id"] not in done]
    print("mutants:", len(ms), "todo:", len(todo), flush=True)
    lock = threading.Lock()
    nworkers = int(os.environ.get("MUT_WORKERS", "6"))
    wts = [worktree("p1-%d" % i) for i in range(nworkers)]
    free = list(wts)
    out = open(p1, "a")
    def one(m):
        with lock:
            wt = free.pop()
        try:
            apply(wt, m)
            pkg = "./" + os.path.dirname(m["file"]) + "/..."
            rc, o = sh(["go", "build", "./..."], cwd=wt, timeout=600)
            if rc != 0:
                res = "does-not-build"
            else:
                try:
                    rc, o = sh(["go", "test", "-vet=off", "-count=1", "-timeout", "120s", "./..."], cwd=wt, timeout=900)
                    res = "survives-suite" if rc == 0 else "killed-by-suite"
                except subprocess.TimeoutExpired:
                    res = "killed-by-suite(timeout)"
            restore(wt, m)
        finally:
            with lock:
                free.append(wt)
        r = dict(m, phase1=res)
        with lock:
            out.write(json.dumps(r) + "\n"); out.flush()
        return res
    with cf.ThreadPoolExecutor(nworkers) as ex:
        n = 0
        for res in ex.map(one, todo):
            n += 1
            if n % 25 == 0:
                print(n, "/", len(todo), flush=True)
    for wt in wts:
        drop(wt)

import re
_LOGRE = re.compile(r"log\.|Printf|Println|frameLog|totalFrames|logFrameRate|Sprintf|Errorf|errors\.New|debug|Debug")
_src = {}
def logging_only(m):
    """mutants on lines that only produce log or error text (or the frame-rate statistics) cannot touch a property"""
    if m["file"] not in _src:
        _src[m["file"]] = open(os.path.join("/repo", m["file"])).read().split("\n")
    line = _src[m["file"]][m["line"] - 1]
    return bool(_LOGRE.search(line)) and m["op"] in ("const", "delete", "binop") and not line.strip().startswith(("if ", "} else if", "for ", "return"))

def phase2():
    p1 = [json.loads(l) for l in open(os.path.join(OUT, "phase1.jsonl"))]
    surv = [m for m in p1 if m["phase1"] == "survives-suite"]
    p2 = os.path.join(OUT, "phase2.jsonl")
    done = set()
    if os.path.exists(p2):
        recs = [json.loads(l) for l in open(p2)]
        retry = os.environ.get("MUT_RETRY")  # e.g. HARNESS-ERROR: drop those records and run them again
        rclass = os.environ.get("MUT_RETRY_CLASS")  # e.g. closed: run the mutants triaged as closed gaps again
        if rclass:
            tri = json.load(open(os.path.join(OUT, "triage.json")))
            def cls(m):
                for rule in tri.get(m["file"], []):
                    if rule[0] <= m["line"] <= rule[1] and (len(rule) < 5 or re.search(rule[4], m["desc"])):
                        return rule[2]
                return ""
            keep = [r for r in recs if not (r["verdict"] != "DETECTED" and cls(r) == rclass)]
            with open(p2, "w") as f:
                for r in keep:
                    f.write(json.dumps(r) + "\n")
            recs = keep
        if retry:
            keep = [r for r in recs if r["verdict"] != retry]
            with open(p2, "w") as f:
                for r in keep:
                    f.write(json.dumps(r) + "\n")
            recs = keep
        done = {r["id"] for r in recs}
    todo = [m for m in surv if m["id"] not in done and not logging_only(m)]
    only = os.environ.get("MUT_ONLY")
    if only:
        todo = [m for m in todo if m["file"].startswith(only)]
    print("suite survivors:", len(surv), "todo:", len(todo), flush=True)
    nworkers = int(os.environ.get("MUT_WORKERS", "1"))
    tag = (only or "all").replace("/", "_")
    wts = [worktree("p2-%s-%d" % (tag, i)) for i in range(nworkers)]
    free = list(wts)
    lock = threading.Lock()
    out = open(p2, "a")
    cnt = [0]
    def one(m):
        with lock:
            wt = free.pop()
        evd = "/tmp/mutsweep-ev-%s.json" % os.path.basename(wt)
        apply(wt, m)
        verdict, by, detail = "SURVIVED", "", []
        for chk in TARGETS[m["file"]][1]:
            env = dict(ENV, VERIF_REPO=wt, VERIF_EVIDENCE=evd)
            try:
                rc, o = sh([os.path.join(VERIF, "bin/check"), chk, "quick"], env=env, timeout=1800)
            except subprocess.TimeoutExpired:
                rc, o = 3, "TIMEOUT"
            viol = [l for l in o.splitlines() if l.startswith("VIOLATION property=" + chk)]
            sig = [l for l in o.splitlines() if l.startswith("violation sig=")]
            detail.append({"check": chk, "rc": rc})
            if rc == 1 and viol:
                verdict, by = "DETECTED", chk
                detail[-1]["sig"] = sig[0][:200] if sig else ""
                break
            if rc not in (0, 1):
                detail[-1]["out"] = o[-400:]
                verdict = "HARNESS-ERROR"
        restore(wt, m)
        r = dict(m, verdict=verdict, by=by, detail=detail)
        with lock:
            free.append(wt)
            out.write(json.dumps(r) + "\n"); out.flush()
            cnt[0] += 1
            print(cnt[0], "/", len(todo), m["id"], verdict, by, flush=True)
    with cf.ThreadPoolExecutor(nworkers) as ex:
        list(ex.map(one, todo))
    for wt in wts:
        drop(wt)

def report():
    from collections import Counter
    p1 = [json.loads(l) for l in open(os.path.join(OUT, "phase1.jsonl"))]
    p2p = os.path.join(OUT, "phase2.jsonl")
    p2 = [json.loads(l) for l in open(p2p)] if os.path.exists(p2p) else []
    tri = json.load(open(os.path.join(OUT, "triage.json")))
    def classify(m):
        for rule in tri.get(m["file"], []):
            lo, hi, cls, why = rule[:4]
            if lo <= m["line"] <= hi and (len(rule) < 5 or re.search(rule[4], m["desc"])):
                return cls, why
        return "UNTRIAGED", ""
    lines = ["# Mutation sweep", "",
             "Generated by `tools/mutsweep.py report` from phase1.jsonl / phase2.jsonl / triage.json.", "",
             "| stage | count |", "|---|---|"]
    c1 = Counter(m["phase1"] for m in p1)
    lines.append("| mutants generated | %d |" % len(p1))
    for k in ("does-not-build", "killed-by-suite", "survives-suite"):
        lines.append("| %s | %d |" % (k, c1.get(k, 0)))
    surv = [m for m in p1 if m["phase1"] == "survives-suite"]
    skipped = [m for m in surv if logging_only(m)]
    lines.append("| of the suite survivors: on a log/error-text line, not run | %d |" % len(skipped))
    c2 = Counter(m["verdict"] for m in p2)
    lines.append("| run against the checks | %d |" % len(p2))
    lines.append("| detected by a check | %d |" % c2.get("DETECTED", 0))
    notdet = [m for m in p2 if m["verdict"] != "DETECTED"]
    cls = Counter(classify(m)[0] for m in notdet)
    for k, v in sorted(cls.items()):
        lines.append("| not detected at sweep time: %s | %d |" % (k, v))
    lines += ["", "Detected, by check: " + ", ".join("%s %d" % kv for kv in sorted(Counter(m["by"] for m in p2 if m["by"]).items())), ""]
    lines += ["## Mutants no check reported at sweep time", "", "| file | line | function | mutation | class | why |", "|---|---|---|---|---|---|"]
    for m in sorted(notdet, key=lambda m: (m["file"], m["line"])):
        c, why = classify(m)
        lines.append("| %s | %d | %s | %s | %s | %s |" % (m["file"], m["line"], m["func"], m["desc"].replace("|", "\\|")[:70], c, why))
    open(os.path.join(OUT, "SUMMARY.md"), "w").write("\n".join(lines) + "\n")
    print("\n".join(lines[:20]))
    for m in notdet:
        if classify(m)[0] == "UNTRIAGED":
            print("UNTRIAGED", m["verdict"], m["file"], "line", m["line"], m["func"], "|", m["desc"])

if __name__ == "__main__":
    {"phase1": phase1, "phase2": phase2, "report": report}[sys.argv[1]]()
