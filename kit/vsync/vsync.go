// Package vsync is a drop-in for package sync whose Mutex is owned by the controlled
// scheduler (everything else is passed through, see passthrough_gen.go).
package vsync

import "verifkit/vsched"

//go:generate go run ../cmd/genvos

type Mutex struct{ locked bool }

func (m *Mutex) Lock()   { vsched.MutexLock(m, &m.locked) }
func (m *Mutex) Unlock() { vsched.MutexUnlock(m, &m.locked) }
func (m *Mutex) TryLock() bool {
	if m.locked {
		return false
	}
	vsched.MutexLock(m, &m.locked)
	return true
}
