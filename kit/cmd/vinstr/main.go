// vinstr is a purely syntactic source instrumenter (go/parser + go/ast + go/printer).
// It rewrites a COPY of a repository file so that its synchronisation operations run
// under the controlled scheduler of kit/vsched; the copy is swapped in with a build
// overlay. It is re-run by every check, so what is explored is always the current
// working tree. Anything it cannot handle aborts with exit status 2 and the construct
// named - never a silent skip.
//
//	vinstr -in f.go -out g.go [-imports sync=verifkit/vsync,time=verifkit/vtime]
//	       [-const inFlight=2] [-expr '32*1024*1024=65536']
//	       [-watch-var processor,headerInfo] [-watch-field CurrentFrame,StartSnapshot]
//	       [-watch-call io.ReadFull:1:w,writeFrame:1:r] [-points-in convertRawBosonFrame,Copy]
package main

import (
	"bytes"
	"flag"
	"fmt"
	"go/ast"
	"go/parser"
	"go/printer"
	"go/token"
	"os"
	"path/filepath"
	"strconv"
	"strings"
)

var (
	fset       = token.NewFileSet()
	base       string
	watchVar   = map[string]bool{}
	watchField = map[string]bool{}
	watchCall  = map[string][2]string{} // callee -> (arg index, r|w)
	pointsIn   = map[string]bool{}
	consts     = map[string]string{}
	exprs      = map[string]string{}
	used       bool
	generated  = map[ast.Node]bool{}
	constHit   = map[string]bool{}
	paramDecl  = map[*ast.ValueSpec]bool{}
	isField    = map[*ast.Ident]bool{}
	topLevel   = map[*ast.Object]bool{}
	exprHit    = map[string]bool{}
)

func die(pos token.Pos, format string, a ...interface{}) {
	fmt.Fprintf(os.Stderr, "vinstr: %s: %s\n", fset.Position(pos), fmt.Sprintf(format, a...))
	os.Exit(2)
}

// site names a source location by file and enclosing function (not by line: signatures of recorded
// findings must survive unrelated edits that shift lines).
func site(pos token.Pos) *ast.BasicLit {
	return &ast.BasicLit{Kind: token.STRING, Value: strconv.Quote(fmt.Sprintf("%s:%s", base, curFunc))}
}

var curFunc = "?"

func call(fn string, args ...ast.Expr) *ast.CallExpr {
	used = true
	return &ast.CallExpr{Fun: &ast.SelectorExpr{X: ast.NewIdent("vsched"), Sel: ast.NewIdent(fn)}, Args: args}
}

func stmt(e ast.Expr) ast.Stmt {
	s := &ast.ExprStmt{X: e}
	generated[s] = true
	return s
}

func boolLit(b bool) ast.Expr {
	if b {
		return ast.NewIdent("true")
	}
	return ast.NewIdent("false")
}

func src(n ast.Node) string {
	var b bytes.Buffer
	printer.Fprint(&b, fset, n)
	return b.String()
}

// exprsOf lists the sub-expressions of a statement that are evaluated when the statement
// itself is reached (not the bodies of nested blocks or function literals).
func shallow(n ast.Node, f func(ast.Node) bool) {
	ast.Inspect(n, func(m ast.Node) bool {
		switch m.(type) {
		case *ast.BlockStmt, *ast.FuncLit, *ast.CaseClause, *ast.CommClause:
			if m != n {
				return false
			}
		}
		if m == nil {
			return false
		}
		return f(m)
	})
}

// pre computes the statements to insert before s.
func pre(s ast.Stmt, inPoints bool) []ast.Stmt {
	var out []ast.Stmt
	if generated[s] {
		return nil
	}
	if inPoints {
		out = append(out, stmt(call("Point", site(s.Pos()))))
	}
	// channel operations
	switch st := s.(type) {
	case *ast.SendStmt:
		out = append(out, stmt(call("AwaitSend", st.Chan)))
	case *ast.SelectStmt:
		return out // handled by the select rewrite
	}
	// only the parts evaluated on reaching the statement
	var heads []ast.Node
	switch st := s.(type) {
	case *ast.IfStmt:
		if st.Init != nil {
			heads = append(heads, st.Init)
		}
		heads = append(heads, st.Cond)
	case *ast.ForStmt:
		if st.Init != nil {
			heads = append(heads, st.Init)
		}
		if st.Cond != nil {
			heads = append(heads, st.Cond)
		}
	case *ast.RangeStmt:
		heads = append(heads, st.X)
		if _, isChan := st.X.(*ast.UnaryExpr); isChan {
			die(st.Pos(), "range over a channel expression is not supported")
		}
	case *ast.SwitchStmt:
		if st.Init != nil {
			heads = append(heads, st.Init)
		}
		if st.Tag != nil {
			heads = append(heads, st.Tag)
		}
	case *ast.TypeSwitchStmt, *ast.BlockStmt, *ast.LabeledStmt:
	default:
		heads = append(heads, s)
	}
	lhs := map[ast.Expr]bool{}
	for _, h := range heads {
		switch a := h.(type) {
		case *ast.AssignStmt:
			for _, l := range a.Lhs {
				lhs[l] = true
			}
		case *ast.IncDecStmt:
			lhs[a.X] = true
		}
	}
	seen := map[string]bool{}
	add := func(key string, c *ast.CallExpr) {
		if !seen[key] {
			seen[key] = true
			out = append(out, stmt(c))
		}
	}
	for _, h := range heads {
		shallow(h, func(m ast.Node) bool {
			switch e := m.(type) {
			case *ast.UnaryExpr:
				if e.Op == token.ARROW && !generated[e] {
					add("recv:"+src(e.X), call("AwaitRecv", e.X))
				}
			case *ast.Ident:
				// a watched package-level variable: unresolved here (declared in another file of the
				// package) or resolved to a top-level declaration of this file
				if watchVar[e.Name] && !isField[e] && (e.Obj == nil || topLevel[e.Obj]) {
					w := lhs[ast.Expr(e)]
					add(fmt.Sprintf("var:%s:%v", e.Name, w), call("AccessAt", &ast.UnaryExpr{Op: token.AND, X: ast.NewIdent(e.Name)}, &ast.BasicLit{Kind: token.STRING, Value: strconv.Quote(e.Name)}, boolLit(w), site(s.Pos())))
				}
			case *ast.SelectorExpr:
				isField[e.Sel] = true
				if watchField[e.Sel.Name] {
					w := lhs[ast.Expr(e)]
					add(fmt.Sprintf("field:%s:%v", src(e), w), call("AccessAt", &ast.UnaryExpr{Op: token.AND, X: e}, &ast.BasicLit{Kind: token.STRING, Value: strconv.Quote("." + e.Sel.Name)}, boolLit(w), site(s.Pos())))
				}
			case *ast.CallExpr:
				name := src(e.Fun)
				if wc, ok := watchCall[name]; ok {
					idx, _ := strconv.Atoi(wc[0])
					if idx < len(e.Args) {
						add("call:"+name+src(e.Args[idx]), call("AccessPtr", e.Args[idx], boolLit(wc[1] == "w"), site(s.Pos())))
					}
				}
				if id, ok := e.Fun.(*ast.Ident); ok && id.Name == "close" && len(e.Args) == 1 && id.Obj == nil {
					e.Fun = &ast.SelectorExpr{X: ast.NewIdent("vsched"), Sel: ast.NewIdent("Close")}
					used = true
				}
			}
			return true
		})
	}
	return out
}

func rewriteSelect(st *ast.SelectStmt) ast.Stmt {
	var chans []ast.Expr
	sw := &ast.SwitchStmt{Body: &ast.BlockStmt{}}
	hasDefault := false
	n := 0
	for _, c := range st.Body.List {
		cc := c.(*ast.CommClause)
		if cc.Comm == nil {
			// select with default = a non-blocking poll: the default branch runs iff no channel is ready
			hasDefault = true
			sw.Body.List = append(sw.Body.List, &ast.CaseClause{List: nil, Body: block(cc.Body, false)})
			continue
		}
		var recv *ast.UnaryExpr
		switch cm := cc.Comm.(type) {
		case *ast.ExprStmt:
			recv, _ = cm.X.(*ast.UnaryExpr)
		case *ast.AssignStmt:
			if len(cm.Rhs) == 1 {
				recv, _ = cm.Rhs[0].(*ast.UnaryExpr)
			}
		}
		if recv == nil || recv.Op != token.ARROW {
			die(cc.Pos(), "select clause that is not a receive is not supported")
		}
		generated[recv] = true
		generated[cc.Comm] = true
		chans = append(chans, recv.X)
		body := append([]ast.Stmt{cc.Comm}, block(cc.Body, false)...)
		sw.Body.List = append(sw.Body.List, &ast.CaseClause{List: []ast.Expr{&ast.BasicLit{Kind: token.INT, Value: strconv.Itoa(n)}}, Body: body})
		n++
	}
	if hasDefault {
		sw.Tag = call("PollSelect", chans...)
	} else {
		sw.Tag = call("AwaitSelect", chans...)
	}
	return sw
}

func rewriteGo(g *ast.GoStmt) ast.Stmt {
	// bind the arguments now, run the call in the new controlled thread
	blk := &ast.BlockStmt{}
	c := g.Call
	var args []ast.Expr
	for i, a := range c.Args {
		if _, lit := a.(*ast.BasicLit); lit {
			args = append(args, a)
			continue
		}
		name := ast.NewIdent(fmt.Sprintf("vgoArg%d", i))
		as := &ast.AssignStmt{Lhs: []ast.Expr{name}, Tok: token.DEFINE, Rhs: []ast.Expr{a}}
		generated[as] = true
		blk.List = append(blk.List, as)
		args = append(args, name)
	}
	if fl, ok := c.Fun.(*ast.FuncLit); ok {
		fl.Body.List = block(fl.Body.List, false)
	}
	inner := &ast.ExprStmt{X: &ast.CallExpr{Fun: c.Fun, Args: args, Ellipsis: c.Ellipsis}}
	generated[inner] = true
	fn := &ast.FuncLit{Type: &ast.FuncType{Params: &ast.FieldList{}}, Body: &ast.BlockStmt{List: []ast.Stmt{inner}}}
	blk.List = append(blk.List, stmt(call("Go", fn)))
	return blk
}

// block instruments a statement list.
func block(list []ast.Stmt, inPoints bool) []ast.Stmt {
	var out []ast.Stmt
	for _, s := range list {
		out = append(out, pre(s, inPoints)...)
		out = append(out, inner(s, inPoints))
	}
	return out
}

// inner descends into the nested blocks of s and returns its replacement.
func inner(s ast.Stmt, inPoints bool) ast.Stmt {
	switch st := s.(type) {
	case *ast.GoStmt:
		return rewriteGo(st)
	case *ast.SelectStmt:
		return rewriteSelect(st)
	case *ast.BlockStmt:
		st.List = block(st.List, inPoints)
	case *ast.IfStmt:
		st.Body.List = block(st.Body.List, inPoints)
		if st.Else != nil {
			st.Else = inner(st.Else, inPoints)
		}
	case *ast.ForStmt:
		st.Body.List = block(st.Body.List, inPoints)
	case *ast.RangeStmt:
		st.Body.List = block(st.Body.List, inPoints)
	case *ast.SwitchStmt:
		for _, c := range st.Body.List {
			cc := c.(*ast.CaseClause)
			cc.Body = block(cc.Body, inPoints)
		}
	case *ast.TypeSwitchStmt:
		for _, c := range st.Body.List {
			cc := c.(*ast.CaseClause)
			cc.Body = block(cc.Body, inPoints)
		}
	case *ast.LabeledStmt:
		st.Stmt = inner(st.Stmt, inPoints)
	case *ast.DeferStmt, *ast.ExprStmt, *ast.AssignStmt, *ast.ReturnStmt, *ast.DeclStmt:
		// function literals inside: instrument their bodies
		ast.Inspect(s, func(m ast.Node) bool {
			if fl, ok := m.(*ast.FuncLit); ok {
				fl.Body.List = block(fl.Body.List, inPoints)
				return false
			}
			return true
		})
	}
	return s
}

func splitKV(s string) map[string]string {
	m := map[string]string{}
	for _, kv := range strings.Split(s, ",") {
		if kv == "" {
			continue
		}
		i := strings.LastIndex(kv, "=")
		m[kv[:i]] = kv[i+1:]
	}
	return m
}

func main() {
	in := flag.String("in", "", "input file")
	out := flag.String("out", "", "output file")
	imports := flag.String("imports", "", "std=shim,...")
	fconst := flag.String("const", "", "name=value,...")
	fexpr := flag.String("expr", "", "source=replacement,...")
	wv := flag.String("watch-var", "", "package-level variables")
	wf := flag.String("watch-field", "", "field names")
	wc := flag.String("watch-call", "", "callee:argindex:r|w,...")
	pi := flag.String("points-in", "", "functions that get a scheduling point before every statement")
	flag.Parse()
	base = filepath.Base(*in)
	for _, v := range strings.Split(*wv, ",") {
		if v != "" {
			watchVar[v] = true
		}
	}
	for _, v := range strings.Split(*wf, ",") {
		if v != "" {
			watchField[v] = true
		}
	}
	for _, v := range strings.Split(*wc, ",") {
		if v != "" {
			p := strings.Split(v, ":")
			watchCall[p[0]] = [2]string{p[1], p[2]}
		}
	}
	for _, v := range strings.Split(*pi, ",") {
		if v != "" {
			pointsIn[v] = true
		}
	}
	consts = splitKV(*fconst)
	exprs = splitKV(*fexpr)
	f, err := parser.ParseFile(fset, *in, nil, 0)
	if err != nil {
		fmt.Fprintln(os.Stderr, "vinstr:", err)
		os.Exit(2)
	}
	// constant and expression overrides (scaling)
	ast.Inspect(f, func(n ast.Node) bool {
		switch v := n.(type) {
		case *ast.ValueSpec:
			for i, name := range v.Names {
				if val, ok := consts[name.Name]; ok && i < len(v.Values) {
					if val == "@param" {
						// becomes a variable read from the harness at run time (default: the original value)
						v.Values[i] = call("IntParam", &ast.BasicLit{Kind: token.STRING, Value: strconv.Quote(name.Name)}, v.Values[i])
						paramDecl[v] = true
					} else {
						v.Values[i] = &ast.BasicLit{Kind: token.INT, Value: val}
					}
					constHit[name.Name] = true
				}
			}
		case *ast.CallExpr:
			for i, a := range v.Args {
				if rep, ok := exprs[src(a)]; ok {
					v.Args[i] = &ast.BasicLit{Kind: token.INT, Value: rep}
					exprHit[src(a)] = true
				}
			}
		}
		return true
	})
	ast.Inspect(f, func(n ast.Node) bool {
		if gd, ok := n.(*ast.GenDecl); ok && gd.Tok == token.CONST {
			for _, sp := range gd.Specs {
				if vs, ok := sp.(*ast.ValueSpec); ok && paramDecl[vs] {
					if len(gd.Specs) != 1 {
						die(gd.Pos(), "a constant turned into a run-time parameter must be declared on its own")
					}
					gd.Tok = token.VAR
				}
			}
		}
		return true
	})
	for k := range consts {
		if !constHit[k] {
			fmt.Fprintf(os.Stderr, "vinstr: %s: constant %s not found (scaling override cannot be applied)\n", *in, k)
			os.Exit(2)
		}
	}
	for _, d := range f.Decls {
		if gd, ok := d.(*ast.GenDecl); ok && gd.Tok == token.VAR {
			for _, sp := range gd.Specs {
				for _, n := range sp.(*ast.ValueSpec).Names {
					if n.Obj != nil {
						topLevel[n.Obj] = true
					}
				}
			}
		}
	}
	for _, d := range f.Decls {
		fd, ok := d.(*ast.FuncDecl)
		if !ok || fd.Body == nil {
			continue
		}
		curFunc = fd.Name.Name
		fd.Body.List = block(fd.Body.List, pointsIn[fd.Name.Name])
	}
	// import rewrites
	imap := splitKV(*imports)
	for _, im := range f.Imports {
		p, _ := strconv.Unquote(im.Path.Value)
		if shim, ok := imap[p]; ok {
			if im.Name == nil {
				im.Name = ast.NewIdent(filepath.Base(p))
			}
			im.Path.Value = strconv.Quote(shim)
		}
	}
	if used {
		spec := &ast.ImportSpec{Name: ast.NewIdent("vsched"), Path: &ast.BasicLit{Kind: token.STRING, Value: `"verifkit/vsched"`}}
		decl := &ast.GenDecl{Tok: token.IMPORT, Specs: []ast.Spec{spec}}
		f.Decls = append([]ast.Decl{decl}, f.Decls...)
	}
	var b bytes.Buffer
	if err := printer.Fprint(&b, fset, f); err != nil {
		fmt.Fprintln(os.Stderr, "vinstr:", err)
		os.Exit(2)
	}
	if err := os.WriteFile(*out, b.Bytes(), 0o644); err != nil {
		fmt.Fprintln(os.Stderr, "vinstr:", err)
		os.Exit(2)
	}
}
