// vmutate lists syntactic mutants of a Go source file as JSON lines:
// {"file":..., "off":..., "len":..., "new":..., "line":..., "func":..., "op":..., "desc":...}
// A mutant is applied by replacing len bytes at offset off with new. Used by tools/mutsweep.py to
// measure which small changes the checks notice (mutants the repository's own tests already
// reject are filtered out by the sweep, not here).
package main

import (
	"encoding/json"
	"fmt"
	"go/ast"
	"go/parser"
	"go/token"
	"os"
	"strconv"
)

type mutant struct {
	File string `json:"file"`
	Off  int    `json:"off"`
	Len  int    `json:"len"`
	New  string `json:"new"`
	Line int    `json:"line"`
	Func string `json:"func"`
	Op   string `json:"op"`
	Desc string `json:"desc"`
}

func main() {
	path := os.Args[1]
	src, err := os.ReadFile(path)
	if err != nil {
		panic(err)
	}
	fset := token.NewFileSet()
	f, err := parser.ParseFile(fset, path, src, parser.ParseComments)
	if err != nil {
		panic(err)
	}
	enc := json.NewEncoder(os.Stdout)
	emit := func(fn string, pos token.Pos, n int, repl, op, desc string) {
		p := fset.Position(pos)
		enc.Encode(mutant{File: path, Off: p.Offset, Len: n, New: repl, Line: p.Line, Func: fn, Op: op, Desc: desc})
	}
	swap := map[token.Token][]string{
		token.LSS: {"<="}, token.LEQ: {"<"}, token.GTR: {">="}, token.GEQ: {">"},
		token.EQL: {"!="}, token.NEQ: {"=="}, token.LAND: {"||"}, token.LOR: {"&&"},
		token.ADD: {"-"}, token.SUB: {"+"},
	}
	for _, d := range f.Decls {
		fd, ok := d.(*ast.FuncDecl)
		if !ok || fd.Body == nil {
			continue
		}
		fn := fd.Name.Name
		ast.Inspect(fd.Body, func(n ast.Node) bool {
			switch x := n.(type) {
			case *ast.BinaryExpr:
				for _, r := range swap[x.Op] {
					emit(fn, x.OpPos, len(x.Op.String()), r, "binop", fmt.Sprintf("%s -> %s", x.Op, r))
				}
			case *ast.BasicLit:
				if x.Kind == token.INT {
					if v, err := strconv.ParseInt(x.Value, 0, 64); err == nil && v < 1000000 {
						emit(fn, x.Pos(), len(x.Value), strconv.FormatInt(v+1, 10), "const", fmt.Sprintf("%s -> %d", x.Value, v+1))
						if v > 0 {
							emit(fn, x.Pos(), len(x.Value), strconv.FormatInt(v-1, 10), "const", fmt.Sprintf("%s -> %d", x.Value, v-1))
						}
					}
				}
			case *ast.IfStmt:
				s, e := fset.Position(x.Cond.Pos()).Offset, fset.Position(x.Cond.End()).Offset
				emit(fn, x.Cond.Pos(), e-s, "!("+string(src[s:e])+")", "negate", "if condition negated")
			case *ast.Ident:
				if x.Name == "true" {
					emit(fn, x.Pos(), 4, "false", "bool", "true -> false")
				} else if x.Name == "false" {
					emit(fn, x.Pos(), 5, "true", "bool", "false -> true")
				}
			case *ast.BlockStmt:
				for _, st := range x.List {
					del := false
					switch y := st.(type) {
					case *ast.ExprStmt:
						del = true
					case *ast.IncDecStmt:
						del = true
					case *ast.AssignStmt:
						del = y.Tok != token.DEFINE
					}
					if del {
						s, e := fset.Position(st.Pos()).Offset, fset.Position(st.End()).Offset
						txt := string(src[s:e])
						if len(txt) > 60 {
							txt = txt[:60] + "..."
						}
						emit(fn, st.Pos(), e-s, "", "delete", "statement deleted: "+txt)
					}
				}
			}
			return true
		})
	}
}
