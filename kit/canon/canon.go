// Package canon computes canonical state keys of live Go objects by a generic
// reflection walk (unexported fields included, no field names needed except for the
// optional per-field rules). It is used by the explicit-state searches to deduplicate
// states reached by different histories of the real code.
package canon

import (
	"fmt"
	"reflect"
	"sort"
	"strings"
	"unsafe"
)

// Rules customise the walk.
type Rules struct {
	// SkipTypes: values of these types (by reflect.Type.String()) are omitted.
	SkipTypes map[string]bool
	// Field rules keyed "TypeName.FieldName" (TypeName = reflect.Type.String() of the struct).
	// A rule returns the string to emit for the field; returning ok=false falls back to the generic walk.
	Field map[string]func(v reflect.Value) (s string, ok bool)
	// Type rules keyed by reflect.Type.String() (applied to the value, pointers dereferenced first).
	Type map[string]func(v reflect.Value) (s string, ok bool)
	// UsedField records which Field rules fired (so a harness can notice a renamed field).
	UsedField map[string]int
}

func NewRules() *Rules {
	return &Rules{SkipTypes: map[string]bool{}, Field: map[string]func(reflect.Value) (string, bool){}, Type: map[string]func(reflect.Value) (string, bool){}, UsedField: map[string]int{}}
}

// Drop is a field rule that omits the field.
func Drop(reflect.Value) (string, bool) { return "", true }

// CapInt returns a field rule that emits min(value, cap).
func CapInt(capf func() int64) func(reflect.Value) (string, bool) {
	return func(v reflect.Value) (string, bool) {
		x := v.Int()
		if c := capf(); x > c {
			x = c
		}
		return fmt.Sprint(x), true
	}
}

type walker struct {
	r    *Rules
	seen map[unsafe.Pointer]int
	sb   strings.Builder
}

// Key returns the canonical key of the object graph rooted at root (a pointer).
func Key(root interface{}, r *Rules) string {
	w := &walker{r: r, seen: map[unsafe.Pointer]int{}}
	w.walk(reflect.ValueOf(root))
	return w.sb.String()
}

// Access makes an unexported field value readable.
func Access(v reflect.Value) reflect.Value {
	if v.CanInterface() || !v.CanAddr() {
		return v
	}
	return reflect.NewAt(v.Type(), unsafe.Pointer(v.UnsafeAddr())).Elem()
}

func (w *walker) walk(v reflect.Value) {
	if !v.IsValid() {
		w.sb.WriteString("nil")
		return
	}
	t := v.Type()
	ts := t.String()
	if w.r.SkipTypes[ts] {
		return
	}
	if f, ok := w.r.Type[ts]; ok {
		if s, ok := f(v); ok {
			w.sb.WriteString(s)
			return
		}
	}
	switch v.Kind() {
	case reflect.Ptr:
		if v.IsNil() {
			w.sb.WriteString("nil")
			return
		}
		p := unsafe.Pointer(v.Pointer())
		if id, ok := w.seen[p]; ok {
			fmt.Fprintf(&w.sb, "@%d", id)
			return
		}
		w.seen[p] = len(w.seen)
		w.walk(v.Elem())
	case reflect.Interface:
		if v.IsNil() {
			w.sb.WriteString("nil")
			return
		}
		e := v.Elem()
		if w.r.SkipTypes[e.Type().String()] {
			return
		}
		w.sb.WriteString(e.Type().String())
		w.sb.WriteByte(':')
		if e.Kind() != reflect.Ptr && !e.CanAddr() {
			// copy into an addressable value so unexported fields can be read
			c := reflect.New(e.Type()).Elem()
			c.Set(e)
			e = c
		}
		w.walk(e)
	case reflect.Struct:
		w.sb.WriteByte('{')
		for i := 0; i < t.NumField(); i++ {
			f := t.Field(i)
			fv := v.Field(i)
			if fv.CanAddr() {
				fv = Access(fv)
			}
			if w.r.SkipTypes[f.Type.String()] {
				continue
			}
			key := ts + "." + f.Name
			if rule, ok := w.r.Field[key]; ok {
				if s, ok := rule(fv); ok {
					w.r.UsedField[key]++
					if s != "" {
						w.sb.WriteString(f.Name)
						w.sb.WriteByte('=')
						w.sb.WriteString(s)
						w.sb.WriteByte(';')
					}
					continue
				}
			}
			if f.Type.Kind() == reflect.Func || f.Type.Kind() == reflect.Chan || f.Type.Kind() == reflect.UnsafePointer {
				continue
			}
			w.sb.WriteString(f.Name)
			w.sb.WriteByte('=')
			w.walk(fv)
			w.sb.WriteByte(';')
		}
		w.sb.WriteByte('}')
	case reflect.Slice:
		if v.IsNil() {
			w.sb.WriteString("nil")
			return
		}
		fallthrough
	case reflect.Array:
		w.sb.WriteByte('[')
		for i := 0; i < v.Len(); i++ {
			w.walk(v.Index(i))
			w.sb.WriteByte(',')
		}
		w.sb.WriteByte(']')
	case reflect.Map:
		keys := v.MapKeys()
		ss := make([]string, len(keys))
		for i, k := range keys {
			ww := &walker{r: w.r, seen: w.seen}
			ww.walk(k)
			ww.sb.WriteByte(':')
			ww.walk(v.MapIndex(k))
			ss[i] = ww.sb.String()
		}
		sort.Strings(ss)
		w.sb.WriteString("map[" + strings.Join(ss, ",") + "]")
	case reflect.Bool:
		if v.Bool() {
			w.sb.WriteByte('T')
		} else {
			w.sb.WriteByte('F')
		}
	case reflect.Int, reflect.Int8, reflect.Int16, reflect.Int32, reflect.Int64:
		fmt.Fprintf(&w.sb, "%d", v.Int())
	case reflect.Uint, reflect.Uint8, reflect.Uint16, reflect.Uint32, reflect.Uint64, reflect.Uintptr:
		fmt.Fprintf(&w.sb, "%d", v.Uint())
	case reflect.Float32, reflect.Float64:
		fmt.Fprintf(&w.sb, "%g", v.Float())
	case reflect.String:
		fmt.Fprintf(&w.sb, "%q", v.String())
	case reflect.Func, reflect.Chan, reflect.UnsafePointer:
		// not part of the state
	default:
		fmt.Fprintf(&w.sb, "?%s", v.Kind())
	}
}
