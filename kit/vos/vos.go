// Package vos is a drop-in for the parts of package os used by the recording write path
// (go-cptv's writer and cmd/thermal-recorder's file recorder). It performs the real
// operations on the real file system but numbers every one of them, so that a harness
// can (a) observe the directory at every operation boundary, (b) stop the "process" before
// operation k - completed operations persist, user-space buffers are lost: process-kill
// semantics - and (c) make operation k fail. Files are swapped in with a build overlay
// that rewrites the import `os` to this package; /repo itself is never edited.
package vos

import (
	"errors"
	"os"
	"sync"
)

// Crash is the panic value used to unwind the code under test at a crash point.
type Crash struct{ Op int }

type Op struct {
	N    int
	Kind string
	Path string
	Len  int
}

var (
	mu       sync.Mutex
	ops      []Op
	crashAt  int // crash before the operation with this number (1-based); 0 = never
	tornAt   int // like crashAt, but a Write is performed for its first half before the crash
	failAt   int // make this operation return an error instead of executing it
	open     = map[*File]bool{}
	Boundary func(next Op) // called before every operation (the concurrent observer's chance)
)

var ErrInjected = errors.New("vos: injected I/O error")

// Reset clears the log and disarms everything.
func Reset() {
	mu.Lock()
	defer mu.Unlock()
	ops = nil
	crashAt, tornAt, failAt = 0, 0, 0
	Boundary = nil
}

func ArmCrash(k int) { crashAt = k }
func ArmTorn(k int)  { tornAt = k }
func ArmFail(k int)  { failAt = k }
func Ops() []Op      { return append([]Op{}, ops...) }

// CloseAll closes every descriptor opened through the shim without flushing anything
// (what the kernel does when the process is killed).
func CloseAll() {
	for f := range open {
		f.f.Close()
		delete(open, f)
	}
}

// step registers the next operation; returns (fail, torn).
func step(kind, path string, n int) (bool, bool) {
	op := Op{N: len(ops) + 1, Kind: kind, Path: path, Len: n}
	if Boundary != nil {
		Boundary(op)
	}
	if crashAt == op.N {
		panic(Crash{op.N})
	}
	ops = append(ops, op)
	if tornAt == op.N {
		if kind == "write" {
			return false, true
		}
		panic(Crash{op.N})
	}
	return failAt == op.N, false
}

type File struct {
	f    *os.File
	name string
}

func Create(name string) (*File, error) {
	if fail, _ := step("create", name, 0); fail {
		return nil, &os.PathError{Op: "open", Path: name, Err: ErrInjected}
	}
	f, err := os.Create(name)
	if err != nil {
		return nil, err
	}
	vf := &File{f: f, name: name}
	open[vf] = true
	return vf, nil
}

// Open and OpenFile hand out shim files too, so that code written against *os.File keeps compiling.
func Open(name string) (*File, error) { return OpenFile(name, os.O_RDONLY, 0) }

func OpenFile(name string, flag int, perm os.FileMode) (*File, error) {
	kind := "open"
	if flag&(os.O_WRONLY|os.O_RDWR|os.O_CREATE|os.O_TRUNC|os.O_APPEND) != 0 {
		kind = "openfile"
		if fail, _ := step(kind, name, 0); fail {
			return nil, &os.PathError{Op: "open", Path: name, Err: ErrInjected}
		}
	}
	f, err := os.OpenFile(name, flag, perm)
	if err != nil {
		return nil, err
	}
	vf := &File{f: f, name: name}
	open[vf] = true
	return vf, nil
}

func MkdirAll(name string, perm os.FileMode) error {
	if fail, _ := step("mkdirall", name, 0); fail {
		return &os.PathError{Op: "mkdir", Path: name, Err: ErrInjected}
	}
	return os.MkdirAll(name, perm)
}

func RemoveAll(name string) error {
	if fail, _ := step("removeall", name, 0); fail {
		return &os.PathError{Op: "remove", Path: name, Err: ErrInjected}
	}
	return os.RemoveAll(name)
}

func WriteFile(name string, data []byte, perm os.FileMode) error {
	f, err := OpenFile(name, os.O_WRONLY|os.O_CREATE|os.O_TRUNC, perm)
	if err != nil {
		return err
	}
	_, err = f.Write(data)
	if err1 := f.Close(); err1 != nil && err == nil {
		err = err1
	}
	return err
}

func (f *File) Name() string { return f.name }

// uncounted pass-through methods
func (f *File) Stat() (os.FileInfo, error)              { return f.f.Stat() }
func (f *File) Fd() uintptr                             { return f.f.Fd() }
func (f *File) ReadAt(b []byte, off int64) (int, error) { return f.f.ReadAt(b, off) }
func (f *File) Readdir(n int) ([]os.FileInfo, error)    { return f.f.Readdir(n) }
func (f *File) Readdirnames(n int) ([]string, error)    { return f.f.Readdirnames(n) }
func (f *File) ReadDir(n int) ([]os.DirEntry, error)    { return f.f.ReadDir(n) }
func (f *File) Chmod(mode os.FileMode) error            { return f.f.Chmod(mode) }

// counted mutating methods
func (f *File) WriteString(s string) (int, error) { return f.Write([]byte(s)) }
func (f *File) WriteAt(b []byte, off int64) (int, error) {
	if fail, _ := step("writeat", f.name, len(b)); fail {
		return 0, &os.PathError{Op: "write", Path: f.name, Err: ErrInjected}
	}
	return f.f.WriteAt(b, off)
}
func (f *File) Sync() error {
	if fail, _ := step("sync", f.name, 0); fail {
		return &os.PathError{Op: "sync", Path: f.name, Err: ErrInjected}
	}
	return f.f.Sync()
}
func (f *File) Truncate(size int64) error {
	if fail, _ := step("truncate", f.name, 0); fail {
		return &os.PathError{Op: "truncate", Path: f.name, Err: ErrInjected}
	}
	return f.f.Truncate(size)
}

func (f *File) Write(p []byte) (int, error) {
	fail, torn := step("write", f.name, len(p))
	if fail {
		return 0, &os.PathError{Op: "write", Path: f.name, Err: ErrInjected}
	}
	if torn {
		f.f.Write(p[:len(p)/2])
		panic(Crash{len(ops)})
	}
	return f.f.Write(p)
}

func (f *File) Read(p []byte) (int, error) { return f.f.Read(p) }

func (f *File) Seek(off int64, whence int) (int64, error) {
	if fail, _ := step("seek", f.name, 0); fail {
		return 0, &os.PathError{Op: "seek", Path: f.name, Err: ErrInjected}
	}
	return f.f.Seek(off, whence)
}

func (f *File) Close() error {
	if fail, _ := step("close", f.name, 0); fail {
		return &os.PathError{Op: "close", Path: f.name, Err: ErrInjected}
	}
	delete(open, f)
	return f.f.Close()
}

func Remove(name string) error {
	if fail, _ := step("remove", name, 0); fail {
		return &os.PathError{Op: "remove", Path: name, Err: ErrInjected}
	}
	return os.Remove(name)
}

func Rename(oldpath, newpath string) error {
	if fail, _ := step("rename", oldpath+" -> "+newpath, 0); fail {
		return &os.LinkError{Op: "rename", Old: oldpath, New: newpath, Err: ErrInjected}
	}
	return os.Rename(oldpath, newpath)
}

func Mkdir(name string, perm os.FileMode) error {
	if fail, _ := step("mkdir", name, 0); fail {
		return &os.PathError{Op: "mkdir", Path: name, Err: ErrInjected}
	}
	return os.Mkdir(name, perm)
}
