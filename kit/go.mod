module verifkit

go 1.21
