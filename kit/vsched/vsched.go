// Package vsched is a cooperative scheduler for real goroutines plus an explorer of
// their interleavings (iterative context bounding, Musuvathi & Qadeer). Exactly one
// registered thread runs at a time; every synchronisation operation of instrumented
// code (mutex, channel, goroutine start, timer, clock, watched memory access) is a
// scheduling point at which the explorer decides who runs next. A vector-clock
// happens-before detector reports conflicting watched accesses that no explored
// synchronisation orders.
package vsched

import (
	"fmt"
	"reflect"
	"sort"
	"strings"
	"time"
)

// ---- the per-execution scheduler

type thread struct {
	id      int
	name    string
	gate    chan struct{}
	done    bool
	started bool
	cond    func() bool // enabled predicate of the pending operation (nil = enabled)
	op      string
	vc      []int
}

type timer struct {
	at    time.Duration
	ch    chan time.Time
	fired bool
	vc    []int
}

type pointRec struct {
	enabled []int // thread ids in canonical order; -1 = environment (fire next timer)
	running int   // id of the running thread, -2 if it is not enabled
	chosen  int   // index into enabled
}

type abortExec struct{}

// Exec is one controlled execution.
type Exec struct {
	threads  []*thread
	cur      *thread
	prefix   []int
	points   []pointRec
	clock    time.Duration
	timers   []*timer
	finished chan struct{}
	aborting bool
	Deadlock string
	Panics   []string
	horizon  int
	Livelock bool
	Diverged string
	// happens-before state
	chanVC    map[uintptr][][]int // per channel: queue of sender clocks
	closeVC   map[uintptr][]int
	closed    map[uintptr]bool
	mutexVC   map[interface{}][]int
	locs      map[string]*locState
	Races     map[string]string
	Log       []string // optional op log (schedule rendering)
	keepLog   bool
	EnvBudget int // how many timer fires the environment may still make
	// keep pins every channel and watched object whose ADDRESS keys scheduler state (closed, chanVC,
	// locs) for the duration of the execution: without it the collector may free a first connection's
	// channel and hand the same address to a later one, which would inherit "closed" (the real receive
	// then blocks for ever) or a stale access history (spurious race)
	keep map[uintptr]interface{}
}

type locState struct {
	wTid, wClk int
	wSite      string
	reads      map[int]int
	rSite      map[int]string
}

var cur *Exec // the execution in progress (instrumented code reaches it through package-level functions)

// Current returns the running execution or nil when code runs outside the explorer.
func Current() *Exec { return cur }

func (e *Exec) newThread(name string, parentVC []int) *thread {
	t := &thread{id: len(e.threads), name: name, gate: make(chan struct{}, 1)}
	t.vc = make([]int, len(e.threads)+1)
	copy(t.vc, parentVC)
	e.threads = append(e.threads, t)
	for _, o := range e.threads {
		for len(o.vc) < len(e.threads) {
			o.vc = append(o.vc, 0)
		}
	}
	t.vc[t.id] = 1
	return t
}

func (e *Exec) tick(t *thread) { t.vc[t.id]++ }

func join(a, b []int) []int {
	for len(a) < len(b) {
		a = append(a, 0)
	}
	for i, v := range b {
		if v > a[i] {
			a[i] = v
		}
	}
	return a
}

func cp(a []int) []int { return append([]int{}, a...) }

// spawn starts fn as a new controlled thread (it does not run until scheduled).
func (e *Exec) spawn(name string, fn func()) *thread {
	var pvc []int
	if e.cur != nil {
		pvc = e.cur.vc
		e.tick(e.cur)
	}
	t := e.newThread(name, pvc)
	go func() {
		<-t.gate
		defer func() {
			if p := recover(); p != nil {
				if _, ok := p.(abortExec); !ok {
					e.Panics = append(e.Panics, fmt.Sprintf("thread %s: %v", t.name, p))
				}
			}
			t.done = true
			e.schedule(t)
		}()
		if e.aborting {
			panic(abortExec{})
		}
		fn()
	}()
	return t
}

func (e *Exec) enabledList(running *thread) ([]int, int) {
	var ids []int
	run := -2
	if running != nil && !running.done && (running.cond == nil || running.cond()) {
		ids = append(ids, running.id)
		run = running.id
	}
	for _, t := range e.threads {
		if t == running || t.done {
			continue
		}
		if t.cond == nil || t.cond() {
			ids = append(ids, t.id)
		}
	}
	if e.EnvBudget > 0 && e.nextTimer() != nil {
		ids = append(ids, -1)
	}
	return ids, run
}

func (e *Exec) nextTimer() *timer {
	var best *timer
	for _, t := range e.timers {
		if !t.fired && (best == nil || t.at < best.at) {
			best = t
		}
	}
	return best
}

// schedule picks the next thread to run. Called by the running thread `self`
// (which parks itself unless chosen again) or by a finishing thread.
func (e *Exec) schedule(self *thread) {
	for {
		if e.aborting {
			e.abortAll(self)
			return
		}
		ids, run := e.enabledList(self)
		if len(ids) == 0 {
			alive := []string{}
			for _, t := range e.threads {
				if !t.done {
					alive = append(alive, fmt.Sprintf("%s blocked in %s", t.name, t.op))
				}
			}
			if len(alive) > 0 {
				e.Deadlock = strings.Join(alive, "; ")
			}
			e.aborting = true
			e.abortAll(self)
			return
		}
		if len(e.points) >= e.horizon {
			e.Livelock = true
			e.aborting = true
			e.abortAll(self)
			return
		}
		choice := 0
		if i := len(e.points); i < len(e.prefix) {
			choice = e.prefix[i]
			if choice >= len(ids) {
				e.Diverged = fmt.Sprintf("replay diverged at point %d: choice %d of %d enabled", i, choice, len(ids))
				e.aborting = true
				e.abortAll(self)
				return
			}
		}
		e.points = append(e.points, pointRec{enabled: ids, running: run, chosen: choice})
		id := ids[choice]
		if id == -1 { // the environment fires the next timer
			t := e.nextTimer()
			t.fired = true
			if t.at > e.clock {
				e.clock = t.at
			}
			e.EnvBudget--
			select {
			case t.ch <- time.Unix(1_700_000_000, 0).Add(e.clock):
			default:
			}
			if e.keepLog {
				e.Log = append(e.Log, fmt.Sprintf("env: timer fires, clock=%v", e.clock))
			}
			continue
		}
		next := e.threads[id]
		if next == self {
			e.cur = self
			return
		}
		e.cur = next
		next.gate <- struct{}{}
		if self != nil && !self.done {
			<-self.gate
			if e.aborting {
				panic(abortExec{})
			}
		}
		return
	}
}

func (e *Exec) abortAll(self *thread) {
	alive := 0
	for _, t := range e.threads {
		if !t.done && t != self {
			alive++
			select {
			case t.gate <- struct{}{}:
			default:
			}
		}
	}
	if self != nil && !self.done {
		panic(abortExec{})
	}
	allDone := true
	for _, t := range e.threads {
		if !t.done {
			allDone = false
		}
	}
	if allDone {
		select {
		case e.finished <- struct{}{}:
		default:
		}
	}
}

// yield is a scheduling point of the running thread with an enabledness predicate.
func (e *Exec) yield(op string, cond func() bool) {
	t := e.cur
	t.cond, t.op = cond, op
	if e.keepLog {
		e.Log = append(e.Log, fmt.Sprintf("%s: %s", t.name, op))
	}
	e.schedule(t)
	t.cond = nil
}

// ---- API for instrumented code (package-level; no-ops outside an execution)

// Go replaces the go statement.
func Go(fn func()) {
	e := cur
	if e == nil {
		go fn()
		return
	}
	e.spawn(fmt.Sprintf("g%d", len(e.threads)), fn)
	e.yield("go", nil)
}

// Point is a plain scheduling point.
func Point(site string) {
	if e := cur; e != nil {
		e.yield("point "+site, nil)
	}
}

func chanPtr(ch interface{}) (reflect.Value, uintptr) {
	v := reflect.ValueOf(ch)
	p := v.Pointer()
	if e := cur; e != nil {
		e.keep[p] = ch
	}
	return v, p
}

// AwaitSend blocks (cooperatively) until a send on ch cannot block, and records the happens-before edge.
func AwaitSend(ch interface{}) {
	e := cur
	if e == nil {
		return
	}
	v, p := chanPtr(ch)
	if v.Cap() == 0 {
		panic("vsched: unbuffered channels are not supported by the instrumenter")
	}
	e.yield("send", func() bool { return v.Len() < v.Cap() || e.closed[p] })
	e.tick(e.cur)
	e.chanVC[p] = append(e.chanVC[p], cp(e.cur.vc))
}

// AwaitRecv blocks until a receive from ch cannot block.
func AwaitRecv(ch interface{}) {
	e := cur
	if e == nil {
		return
	}
	v, p := chanPtr(ch)
	e.yield("recv", func() bool { return v.Len() > 0 || e.closed[p] })
	e.recvEdge(p, v)
}

func (e *Exec) recvEdge(p uintptr, v reflect.Value) {
	if q := e.chanVC[p]; len(q) > 0 && v.Len() > 0 {
		e.cur.vc = join(e.cur.vc, q[0])
		e.chanVC[p] = q[1:]
	} else if e.closed[p] {
		e.cur.vc = join(e.cur.vc, e.closeVC[p])
	}
	e.tick(e.cur)
}

// AwaitSelect blocks until one of the channels is ready to receive and returns the
// index of the one to take; when several are ready the choice is explored.
func AwaitSelect(chs ...interface{}) int {
	e := cur
	if e == nil {
		panic("vsched.AwaitSelect outside an execution")
	}
	vs := make([]reflect.Value, len(chs))
	ps := make([]uintptr, len(chs))
	for i, c := range chs {
		vs[i], ps[i] = chanPtr(c)
	}
	ready := func() []int {
		var r []int
		for i := range vs {
			if vs[i].Len() > 0 || e.closed[ps[i]] {
				r = append(r, i)
			}
		}
		return r
	}
	e.yield("select", func() bool { return len(ready()) > 0 })
	r := ready()
	pick := r[0]
	if len(r) > 1 {
		// Go picks a ready case at random: make it an explored choice by spawning a point per alternative
		pick = r[e.choose(len(r))]
	}
	e.recvEdge(ps[pick], vs[pick])
	return pick
}

// PollSelect is the non-blocking form (select with a default clause): a scheduling point, then the
// index of a channel that is ready to receive, or -1 when none is (the default branch).
func PollSelect(chs ...interface{}) int {
	e := cur
	if e == nil {
		panic("vsched.PollSelect outside an execution")
	}
	e.yield("select/default", nil)
	var ready []int
	vs := make([]reflect.Value, len(chs))
	ps := make([]uintptr, len(chs))
	for i, c := range chs {
		vs[i], ps[i] = chanPtr(c)
		if vs[i].Len() > 0 || e.closed[ps[i]] {
			ready = append(ready, i)
		}
	}
	if len(ready) == 0 {
		return -1
	}
	pick := ready[0]
	if len(ready) > 1 {
		pick = ready[e.choose(len(ready))]
	}
	e.recvEdge(ps[pick], vs[pick])
	return pick
}

// choose is a data choice (not a thread switch): recorded as a point with n pseudo options.
func (e *Exec) choose(n int) int {
	choice := 0
	if i := len(e.points); i < len(e.prefix) {
		choice = e.prefix[i]
	}
	ids := make([]int, n)
	for i := range ids {
		ids[i] = -10 - i
	}
	e.points = append(e.points, pointRec{enabled: ids, running: -3, chosen: choice})
	return choice
}

// Close replaces close(ch).
func Close(ch interface{}) {
	e := cur
	v, p := chanPtr(ch)
	if e != nil {
		e.yield("close", nil)
		e.tick(e.cur)
		e.closed[p] = true
		e.closeVC[p] = cp(e.cur.vc)
	}
	v.Close()
}

// MutexLock / MutexUnlock implement vsync.Mutex.
func MutexLock(m interface{}, locked *bool) {
	e := cur
	if e == nil {
		*locked = true
		return
	}
	e.yield("lock", func() bool { return !*locked })
	*locked = true
	if vc, ok := e.mutexVC[m]; ok {
		e.cur.vc = join(e.cur.vc, vc)
	}
	e.tick(e.cur)
}

func MutexUnlock(m interface{}, locked *bool) {
	e := cur
	if e == nil {
		*locked = false
		return
	}
	if !*locked {
		panic("sync: unlock of unlocked mutex")
	}
	e.tick(e.cur)
	e.mutexVC[m] = cp(e.cur.vc)
	*locked = false
	e.yield("unlock", nil)
}

// Access records a watched memory access and reports a race if it conflicts with an
// earlier access that does not happen-before it. It is also a scheduling point.
func Access(loc string, write bool, site string) {
	e := cur
	if e == nil {
		return
	}
	e.yield("access "+loc, nil)
	t := e.cur
	l := e.locs[loc]
	if l == nil {
		l = &locState{wTid: -1, reads: map[int]int{}, rSite: map[int]string{}}
		e.locs[loc] = l
	}
	hb := func(tid, clk int) bool { return tid == t.id || (tid < len(t.vc) && clk <= t.vc[tid]) }
	if l.wTid >= 0 && !hb(l.wTid, l.wClk) {
		e.race(loc, "write", l.wSite, map[bool]string{true: "write", false: "read"}[write], site)
	}
	if write {
		for tid, clk := range l.reads {
			if !hb(tid, clk) {
				e.race(loc, "read", l.rSite[tid], "write", site)
			}
		}
		l.wTid, l.wClk, l.wSite = t.id, t.vc[t.id], site
		l.reads = map[int]int{}
		l.rSite = map[int]string{}
	} else {
		l.reads[t.id] = t.vc[t.id]
		l.rSite[t.id] = site
	}
}

// AccessAt is Access keyed by the address of the variable or field (several instances of a
// struct type do not alias); name is used for reporting.
func AccessAt(p interface{}, name string, write bool, site string) {
	if cur == nil {
		return
	}
	a := reflect.ValueOf(p).Pointer()
	cur.keep[a] = p
	Access(fmt.Sprintf("%s@%x", name, a), write, site)
}

// AccessPtr is Access keyed by the identity of a buffer.
func AccessPtr(p interface{}, write bool, site string) {
	if cur == nil {
		return
	}
	v := reflect.ValueOf(p)
	cur.keep[v.Pointer()] = p
	Access(fmt.Sprintf("buf@%x", v.Pointer()), write, site)
}

func (e *Exec) race(loc, k1, s1, k2, s2 string) {
	if strings.HasPrefix(loc, "buf@") {
		loc = "frame-buffer"
	} else if i := strings.Index(loc, "@"); i >= 0 {
		loc = loc[:i]
	}
	sites := []string{k1 + "@" + s1, k2 + "@" + s2}
	sort.Strings(sites)
	key := loc + ":" + strings.Join(sites, "|")
	if _, ok := e.Races[key]; !ok {
		e.Races[key] = fmt.Sprintf("%s: %s at %s and %s at %s are not ordered by any lock or channel operation", loc, k1, s1, k2, s2)
	}
}

// ---- virtual time (used by vtime when an execution is running)

func Now() (time.Time, bool) {
	e := cur
	if e == nil {
		return time.Time{}, false
	}
	return time.Unix(1_700_000_000, 0).Add(e.clock), true
}

func After(d time.Duration) (<-chan time.Time, bool) {
	e := cur
	if e == nil {
		return nil, false
	}
	t := &timer{at: e.clock + d, ch: make(chan time.Time, 1)}
	e.timers = append(e.timers, t)
	return t.ch, true
}

// Advance moves the virtual clock (harness use).
func Advance(d time.Duration) {
	if e := cur; e != nil {
		e.clock += d
	}
}

// ---- running one execution

type Options struct {
	Horizon   int
	EnvBudget int
	KeepLog   bool
}

// Run executes body as thread 0 under the given choice prefix and returns the execution record.
func Run(prefix []int, opt Options, body func()) *Exec {
	e := &Exec{prefix: prefix, finished: make(chan struct{}, 1), horizon: opt.Horizon, EnvBudget: opt.EnvBudget, keepLog: opt.KeepLog,
		chanVC: map[uintptr][][]int{}, closeVC: map[uintptr][]int{}, closed: map[uintptr]bool{}, mutexVC: map[interface{}][]int{}, locs: map[string]*locState{}, Races: map[string]string{}, keep: map[uintptr]interface{}{}}
	if e.horizon == 0 {
		e.horizon = 100000
	}
	cur = e
	main := e.spawn("main", body)
	e.cur = main
	main.gate <- struct{}{}
	<-e.finished
	cur = nil
	return e
}

// Spawn starts an additional harness thread from inside a running body.
func Spawn(name string, fn func()) {
	e := cur
	e.spawn(name, fn)
}

// Choices returns the choice made at every point.
func (e *Exec) Choices() []int {
	out := make([]int, len(e.points))
	for i, p := range e.points {
		out[i] = p.chosen
	}
	return out
}

// ---- the explorer

type Explorer struct {
	Bound      int
	Opt        Options
	Body       func()
	Check      func(e *Exec) // called after every complete execution
	Executions int
	Points     int
	MaxPoints  int
	Stop       func() bool
	Capped     bool
	// Shard/NShards split the exploration between processes: the alternatives of the root
	// execution are dealt out round-robin; shard 0 also checks the root execution itself.
	Shard, NShards int
	topAlt         int
	OnDiscard      func(e *Exec)
}

func (x *Explorer) cost(e *Exec, upto int) int {
	c := 0
	for i := 0; i < upto; i++ {
		p := e.points[i]
		c += altCost(p, p.chosen)
	}
	return c
}

func altCost(p pointRec, alt int) int {
	if alt == 0 {
		return 0
	}
	if p.running == -3 {
		return 0 // data choice (select among ready cases): free
	}
	if p.enabled[alt] == -1 {
		return 1 // environment deviation
	}
	if p.running >= 0 {
		return 1 // preemption of a runnable thread
	}
	return 0
}

// Discard is called instead of Check for an execution this shard does not judge (it lets the
// harness release resources of that execution).
func (x *Explorer) Discard(e *Exec) {
	if x.OnDiscard != nil {
		x.OnDiscard(e)
	}
}

// Explore enumerates every execution whose deviation count (preemptions + environment
// timer fires) is at most Bound.
func (x *Explorer) Explore() {
	x.explore(nil)
}

func (x *Explorer) explore(prefix []int) {
	if x.Stop != nil && x.Stop() {
		x.Capped = true
		return
	}
	e := Run(prefix, x.Opt, x.Body)
	root := prefix == nil
	if !(root && x.NShards > 1 && x.Shard != 0) {
		x.Executions++
		x.Points += len(e.points) - len(prefix)
	}
	if len(e.points) > x.MaxPoints {
		x.MaxPoints = len(e.points)
	}
	if e.Diverged != "" {
		panic("vsched: " + e.Diverged)
	}
	if root && x.NShards > 1 && x.Shard != 0 {
		x.Discard(e) // only shard 0 judges the root execution; the others still need its choice points
	} else {
		x.Check(e)
	}
	base := x.cost(e, len(prefix))
	choices := e.Choices()
	c := base
	for i := len(prefix); i < len(e.points); i++ {
		p := e.points[i]
		for alt := 1; alt < len(p.enabled); alt++ {
			if c+altCost(p, alt) > x.Bound {
				continue
			}
			if root && x.NShards > 1 {
				x.topAlt++
				if x.topAlt%x.NShards != x.Shard {
					continue
				}
			}
			np := append(append(make([]int, 0, i+1), choices[:i]...), alt)
			x.explore(np)
		}
		c += altCost(p, p.chosen)
	}
}

// ---- run-time parameters for constants the instrumenter turned into variables (scaling)

var params = map[string]int{}

func SetParam(name string, v int) { params[name] = v }
func ClearParams()                { params = map[string]int{} }

func IntParam(name string, def int) int {
	if v, ok := params[name]; ok {
		return v
	}
	return def
}
