package vsched_test

import (
	"reflect"
	"runtime"
	"testing"

	"verifkit/vsched"
	"verifkit/vsync"
)

// two threads increment a shared counter with and without a lock
func TestLostUpdate(t *testing.T) {
	for _, locked := range []bool{false, true} {
		outcomes := map[int]int{}
		races := 0
		var counter int
		var mu vsync.Mutex
		inc := func() {
			if locked {
				mu.Lock()
			}
			vsched.Access("counter", false, "load")
			v := counter
			vsched.Access("counter", true, "store")
			counter = v + 1
			if locked {
				mu.Unlock()
			}
		}
		x := &vsched.Explorer{Bound: 2, Body: func() {
			counter = 0
			mu = vsync.Mutex{}
			done := make(chan int, 2)
			vsched.Go(func() { inc(); vsched.AwaitSend(done); done <- 1 })
			vsched.Go(func() { inc(); vsched.AwaitSend(done); done <- 1 })
			vsched.AwaitRecv(done)
			<-done
			vsched.AwaitRecv(done)
			<-done
		}, Check: func(e *vsched.Exec) {
			if e.Deadlock != "" || len(e.Panics) > 0 {
				t.Fatalf("deadlock %q panics %v", e.Deadlock, e.Panics)
			}
			outcomes[counter]++
			races += len(e.Races)
		}}
		x.Explore()
		t.Logf("locked=%v executions=%d points=%d outcomes=%v races=%d", locked, x.Executions, x.Points, outcomes, races)
		if locked && (len(outcomes) != 1 || outcomes[2] == 0 || races != 0) {
			t.Fatalf("with the lock every execution must end with 2 and no race: %v races=%d", outcomes, races)
		}
		if !locked && (outcomes[1] == 0 || races == 0) {
			t.Fatalf("without the lock the explorer must find the lost update and the race: %v races=%d", outcomes, races)
		}
	}
}

// a lock-order inversion must be reported as a deadlock
func TestDeadlock(t *testing.T) {
	found := false
	x := &vsched.Explorer{Bound: 1, Body: func() {
		var a, b vsync.Mutex
		done := make(chan int, 2)
		vsched.Go(func() {
			a.Lock()
			b.Lock()
			b.Unlock()
			a.Unlock()
			vsched.AwaitSend(done)
			done <- 1
		})
		vsched.Go(func() {
			b.Lock()
			a.Lock()
			a.Unlock()
			b.Unlock()
			vsched.AwaitSend(done)
			done <- 1
		})
		vsched.AwaitRecv(done)
		<-done
		vsched.AwaitRecv(done)
		<-done
	}, Check: func(e *vsched.Exec) {
		if e.Deadlock != "" {
			found = true
		}
	}}
	x.Explore()
	t.Logf("executions=%d", x.Executions)
	if !found {
		t.Fatal("deadlock not found")
	}
}

// the same prefix must replay identically
func TestDeterministicReplay(t *testing.T) {
	body := func() {
		ch := make(chan int, 1)
		vsched.Go(func() { vsched.AwaitSend(ch); ch <- 1 })
		vsched.Go(func() { vsched.Point("x"); vsched.Point("y") })
		vsched.AwaitRecv(ch)
		<-ch
	}
	e1 := vsched.Run([]int{0, 1, 1}, vsched.Options{}, body)
	e2 := vsched.Run([]int{0, 1, 1}, vsched.Options{}, body)
	if len(e1.Choices()) != len(e2.Choices()) {
		t.Fatalf("replay differs: %v vs %v", e1.Choices(), e2.Choices())
	}
}

// Scheduler state is keyed by channel address; a channel that became garbage inside an execution
// must not hand its address (and its "closed" mark) to a channel made later in the same execution.
func TestNoAddressReuseWithinExecution(t *testing.T) {
	reused := 0
	vsched.Run(nil, vsched.Options{}, func() {
		old := map[uintptr]bool{}
		for i := 0; i < 2000; i++ {
			ch := make(chan int, 1)
			vsched.Close(ch)
			old[reflect.ValueOf(ch).Pointer()] = true
		}
		runtime.GC()
		runtime.GC()
		for i := 0; i < 4000; i++ {
			ch := make(chan int, 1)
			if old[reflect.ValueOf(ch).Pointer()] {
				reused++
			}
		}
	})
	if reused > 0 {
		t.Fatalf("%d fresh channels got the address of a channel closed earlier in the same execution", reused)
	}
}
