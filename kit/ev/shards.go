package ev

import (
	"bufio"
	"bytes"
	"encoding/json"
	"fmt"
	"os"
	"os/exec"
	"path/filepath"
	"strconv"
	"strings"
	"sync"
	"syscall"
	"time"
)

// ShardInfo tells a harness which part of a sharded exploration it is.
func ShardInfo() (shard, n int, child bool) {
	k, err1 := strconv.Atoi(os.Getenv("VERIF_SHARD"))
	m, err2 := strconv.Atoi(os.Getenv("VERIF_NSHARDS"))
	if err1 == nil && err2 == nil && m > 1 {
		return k, m, true
	}
	return 0, 1, false
}

// RunShards re-executes the current test binary n times (one process per shard, in
// parallel), relays their VIOLATION / KNOWN-FINDING lines once, and returns the worst exit
// status plus the list of shard evidence files (to be merged by the parent's Finish via
// VERIF_MERGE_EVIDENCE).
func RunShards(n int, testName string) (exit int, evidence []string) {
	scratch := os.Getenv("VERIF_SCRATCH")
	if scratch == "" {
		scratch = os.TempDir()
	}
	type res struct {
		out  []byte
		code int
	}
	results := make([]res, n)
	var wg sync.WaitGroup
	for k := 0; k < n; k++ {
		evp := filepath.Join(scratch, fmt.Sprintf("shard-%s-%d.json", testName, k))
		evidence = append(evidence, evp)
		wg.Add(1)
		go func(k int, evp string) {
			defer wg.Done()
			cmd := exec.Command(os.Args[0], "-test.run", "^"+testName+"$", "-test.timeout", "0", "-test.count", "1")
			cmd.Env = append(os.Environ(), fmt.Sprintf("VERIF_SHARD=%d", k), fmt.Sprintf("VERIF_NSHARDS=%d", n), "VERIF_EVIDENCE="+evp, "VERIF_MERGE_EVIDENCE=")
			var buf bytes.Buffer
			cmd.Stdout = &buf
			cmd.Stderr = os.Stderr
			// a shard has its own exploration deadline; one that is still alive long after it is a harness
			// hang: make it dump its goroutines (SIGQUIT) instead of waiting for ever
			err := cmd.Start()
			if err == nil {
				limit := 65 * time.Minute
				if v, e := strconv.Atoi(os.Getenv("VERIF_SHARD_TIMEOUT_S")); e == nil && v > 0 {
					limit = time.Duration(v) * time.Second
				}
				tm := time.AfterFunc(limit, func() {
					fmt.Fprintf(os.Stderr, "HARNESS-ERROR: shard %d still running after %v; sending SIGQUIT\n", k, limit)
					cmd.Process.Signal(syscall.SIGQUIT)
				})
				err = cmd.Wait()
				tm.Stop()
			}
			code := 0
			if ee, ok := err.(*exec.ExitError); ok {
				code = ee.ExitCode()
			} else if err != nil {
				code = 2
			}
			results[k] = res{buf.Bytes(), code}
		}(k, evp)
	}
	wg.Wait()
	seen := map[string]bool{}
	for k, r := range results {
		if r.code > exit {
			exit = r.code
		}
		sc := bufio.NewScanner(bytes.NewReader(r.out))
		sc.Buffer(make([]byte, 1<<20), 1<<24)
		for sc.Scan() {
			ln := sc.Text()
			if strings.HasPrefix(ln, "VIOLATION ") || strings.HasPrefix(ln, "KNOWN-FINDING:") {
				key := ln
				if i := strings.Index(ln, " [sig="); i > 0 {
					key = ln[:i]
				}
				if !seen[key] {
					seen[key] = true
					fmt.Println(ln)
				}
			}
		}
		if r.code >= 2 {
			fmt.Fprintf(os.Stderr, "shard %d exited with status %d\n", k, r.code)
		}
	}
	return exit, evidence
}

// MinStageInt returns the minimum of coverage[key] over the given stage evidence files
// (-1 if a file or the key is missing): what every shard completed.
func MinStageInt(paths []string, key string) int {
	min := -1
	for i, p := range paths {
		b, err := os.ReadFile(p)
		if err != nil {
			return -1
		}
		var st struct {
			Coverage map[string]interface{} `json:"coverage"`
		}
		if json.Unmarshal(b, &st) != nil {
			return -1
		}
		f, ok := st.Coverage[key].(float64)
		if !ok {
			return -1
		}
		if i == 0 || int(f) < min {
			min = int(f)
		}
	}
	return min
}

// FreshProcessRerun returns a Rerun function that executes the case in a NEW harness process (the
// replay path of the same test binary) and reports the violations it prints. For harnesses that run many
// executions in one process: a change under test that keeps state in a package-level variable makes
// later executions depend on earlier ones, so only a fresh process is a faithful re-run.
func FreshProcessRerun(property, harness, testName string) func(cj []byte) []Violation {
	return func(cj []byte) []Violation {
		scratch := os.Getenv("VERIF_SCRATCH")
		if scratch == "" {
			scratch = os.TempDir()
		}
		f, err := os.CreateTemp(scratch, "rerun-*.json")
		if err != nil {
			return nil
		}
		defer os.Remove(f.Name())
		b, _ := json.Marshal(map[string]interface{}{"property": property, "harness": harness, "sig": "", "case": json.RawMessage(cj)})
		f.Write(b)
		f.Close()
		cmd := exec.Command(os.Args[0], "-test.run", "^"+testName+"$", "-test.timeout", "0", "-test.count", "1")
		cmd.Env = append(os.Environ(), "VERIF_REPLAY="+f.Name(), "VERIF_SHARD=", "VERIF_NSHARDS=", "VERIF_MERGE_EVIDENCE=")
		out, _ := cmd.Output()
		var vs []Violation
		for _, ln := range strings.Split(string(out), "\n") {
			if !strings.HasPrefix(ln, "violation sig=") {
				continue
			}
			rest := strings.TrimPrefix(ln, "violation sig=")
			sig, msg := rest, ""
			if i := strings.Index(rest, ": "); i >= 0 {
				sig, msg = rest[:i], rest[i+2:]
			}
			vs = append(vs, Violation{Sig: sig, Msg: strings.TrimSuffix(msg, "  <- the recorded violation")})
		}
		return vs
	}
}
