// Package ev is the bookkeeping half of the verification kit: it counts what an
// exhaustive enumeration covered, collects violations (deduplicated by signature),
// matches them against the committed known-findings file, re-runs each new violation
// before believing it, writes the replay artefact and the evidence file, and produces
// the exit status the MANIFEST contract asks for.
package ev

import (
	"encoding/json"
	"fmt"
	"hash/fnv"
	"os"
	"path/filepath"
	"runtime"
	"sort"
	"strconv"
	"strings"
	"sync"
	"sync/atomic"
	"time"
)

// Violation is one failing execution. Sig identifies the *kind* of failure (used to
// match known findings and to deduplicate); Case is the JSON-serialisable description
// of the single execution that failed (replayable without the explorer).
type Violation struct {
	Sig  string      `json:"sig"`
	Msg  string      `json:"msg"`
	Case interface{} `json:"case"`
}

// Finding is one line of KNOWN_FINDINGS.jsonl.
type Finding struct {
	Property string `json:"property"`
	Status   string `json:"status"` // "open" or "fixed"
	Sig      string `json:"sig"`    // exact signature, or prefix when it ends in '*'
	Entry    string `json:"entry"`  // human line; for fixed: "fixed: property=<id> <commit> <what failed>"
	Desc     string `json:"desc,omitempty"`
}

// Worker holds per-goroutine counters so the hot path takes no lock.
type Worker struct {
	ID          int
	Evaluations int64
	States      int64
	Transitions int64
	Nontrivial  int64
	outcomes    map[uint64]struct{}
	ntKeys      map[uint64]struct{}
	viol        map[string]*vrec
	samples     []interface{}
	sampleEvery int64
	Extra       map[string]int64
}

type vrec struct {
	v     Violation
	count int64
	size  int
}

func newWorker(id int) *Worker {
	return &Worker{ID: id, outcomes: map[uint64]struct{}{}, ntKeys: map[uint64]struct{}{}, viol: map[string]*vrec{}, Extra: map[string]int64{}}
}

// Outcome records the hash of what this execution observed (for "distinct outcomes").
func (w *Worker) Outcome(h uint64) { w.outcomes[h] = struct{}{} }

// NontrivialKey records a distinct non-trivial case by hash.
func (w *Worker) NontrivialKey(h uint64) { w.ntKeys[h] = struct{}{} }

// Sample keeps a few written-out cases for the evidence file.
func (w *Worker) Sample(c interface{}) {
	if len(w.samples) < 2 {
		w.samples = append(w.samples, c)
	}
}

// WantSample tells the harness whether building a sample is worthwhile now.
func (w *Worker) WantSample() bool { return len(w.samples) < 2 }

// Violate records a violation; the smallest case per signature is kept.
func (w *Worker) Violate(sig, msg string, c interface{}, size int) {
	r := w.viol[sig]
	if r == nil {
		w.viol[sig] = &vrec{v: Violation{Sig: sig, Msg: msg, Case: c}, count: 1, size: size}
		return
	}
	r.count++
	if size < r.size {
		r.v = Violation{Sig: sig, Msg: msg, Case: c}
		r.size = size
	}
}

// Hash is a small helper for outcome hashing.
func Hash(parts ...interface{}) uint64 {
	h := fnv.New64a()
	for _, p := range parts {
		fmt.Fprintf(h, "%v|", p)
	}
	return h.Sum64()
}

func HashBytes(b []byte) uint64 {
	h := fnv.New64a()
	h.Write(b)
	return h.Sum64()
}

// Run is one invocation of one check.
type Run struct {
	Property    string
	Tier        string
	Level       string
	Harness     string
	Rule        string
	Bounds      map[string]interface{}
	Assumptions []string
	Exhaustive  bool
	Extra       map[string]interface{}
	// Rerun re-executes one case and returns its violations (used to confirm
	// reproducibility of a violation 5x before it is reported).
	Rerun func(caseJSON []byte) []Violation

	start    time.Time
	workers  []*Worker
	mu       sync.Mutex
	capped   atomic.Bool
	deadline time.Time
}

func NewRun(property, harness string) *Run {
	tier := os.Getenv("VERIF_TIER")
	if tier == "" {
		tier = "quick"
	}
	r := &Run{Property: property, Tier: tier, Level: "model_checking", Harness: harness,
		Bounds: map[string]interface{}{}, Extra: map[string]interface{}{}, Exhaustive: true, start: time.Now()}
	if d := os.Getenv("VERIF_DEADLINE_S"); d != "" {
		if s, err := strconv.Atoi(d); err == nil {
			r.deadline = r.start.Add(time.Duration(s) * time.Second)
		}
	}
	return r
}

func (r *Run) Thorough() bool { return r.Tier == "thorough" }

// SetDeadline sets an internal deadline after which enumeration stops early (the run
// is then reported as not exhaustive, never as a violation).
func (r *Run) SetDeadline(d time.Duration) {
	if r.deadline.IsZero() {
		r.deadline = r.start.Add(d)
	}
}

// Expired reports whether the internal deadline has passed; calling it marks the run capped.
func (r *Run) Expired() bool {
	if r.deadline.IsZero() {
		return false
	}
	if time.Now().After(r.deadline) {
		r.capped.Store(true)
		return true
	}
	return false
}

func (r *Run) MarkCapped() { r.capped.Store(true) }

// Parallel runs jobs 0..n-1 on all cores; each goroutine gets its own Worker.
func (r *Run) Parallel(n int, job func(w *Worker, i int)) {
	nw := runtime.NumCPU()
	if v := os.Getenv("VERIF_WORKERS"); v != "" {
		if k, err := strconv.Atoi(v); err == nil && k > 0 {
			nw = k
		}
	}
	if nw > n {
		nw = n
	}
	if nw < 1 {
		nw = 1
	}
	var next int64 = -1
	var wg sync.WaitGroup
	ws := make([]*Worker, nw)
	for k := 0; k < nw; k++ {
		ws[k] = newWorker(len(r.workers) + k)
		wg.Add(1)
		go func(w *Worker) {
			defer wg.Done()
			for {
				i := int(atomic.AddInt64(&next, 1))
				if i >= n {
					return
				}
				if r.Expired() {
					return
				}
				job(w, i)
			}
		}(ws[k])
	}
	wg.Wait()
	r.mu.Lock()
	r.workers = append(r.workers, ws...)
	r.mu.Unlock()
}

// Serial gives a single worker for sequential harnesses.
func (r *Run) Serial() *Worker {
	w := newWorker(len(r.workers))
	r.workers = append(r.workers, w)
	return w
}

func verifDir() string {
	if d := os.Getenv("VERIF_DIR"); d != "" {
		return d
	}
	return "/verif"
}

func loadFindings() []Finding {
	var out []Finding
	b, err := os.ReadFile(filepath.Join(verifDir(), "KNOWN_FINDINGS.jsonl"))
	if err != nil {
		return nil
	}
	for _, ln := range strings.Split(string(b), "\n") {
		ln = strings.TrimSpace(ln)
		if ln == "" || strings.HasPrefix(ln, "#") {
			continue
		}
		var f Finding
		if err := json.Unmarshal([]byte(ln), &f); err != nil {
			fmt.Fprintf(os.Stderr, "KNOWN_FINDINGS.jsonl: bad line %q: %v\n", ln, err)
			os.Exit(2)
		}
		out = append(out, f)
	}
	return out
}

func matchFinding(fs []Finding, prop, sig string) *Finding {
	for i := range fs {
		f := &fs[i]
		if f.Property != prop || f.Status != "open" {
			continue
		}
		if f.Sig == sig || (strings.HasSuffix(f.Sig, "*") && strings.HasPrefix(sig, strings.TrimSuffix(f.Sig, "*"))) {
			return f
		}
	}
	return nil
}

// Finish merges the workers, classifies violations, writes evidence and replay files,
// prints the contract lines and returns the process exit code.
func (r *Run) Finish() int {
	var evals, states, trans, nontriv int64
	outcomes := map[uint64]struct{}{}
	ntKeys := map[uint64]struct{}{}
	viol := map[string]*vrec{}
	extra := map[string]int64{}
	var samples []interface{}
	for _, w := range r.workers {
		evals += w.Evaluations
		states += w.States
		trans += w.Transitions
		nontriv += w.Nontrivial
		for k := range w.outcomes {
			outcomes[k] = struct{}{}
		}
		for k := range w.ntKeys {
			ntKeys[k] = struct{}{}
		}
		for k, v := range w.Extra {
			extra[k] += v
		}
		for s, v := range w.viol {
			if o := viol[s]; o == nil {
				c := *v
				viol[s] = &c
			} else {
				o.count += v.count
				if v.size < o.size {
					o.v, o.size = v.v, v.size
				}
			}
		}
		if len(samples) < 3 {
			samples = append(samples, w.samples...)
		}
	}
	if len(samples) > 3 {
		samples = samples[:3]
	}
	findings := loadFindings()
	sigs := make([]string, 0, len(viol))
	for s := range viol {
		sigs = append(sigs, s)
	}
	sort.Strings(sigs)
	exit := 0
	newViol := 0
	known := 0
	var knownLines, violLines []string
	var notReproduced []string
	for _, s := range sigs {
		v := viol[s]
		if f := matchFinding(findings, r.Property, s); f != nil {
			known++
			knownLines = append(knownLines, fmt.Sprintf("KNOWN-FINDING: property=%s %s [sig=%s, %d failing executions this run]", r.Property, f.Entry, s, v.count))
			continue
		}
		cj, err := json.Marshal(v.v.Case)
		if err != nil {
			fmt.Fprintf(os.Stderr, "harness error: cannot serialise case: %v\n", err)
			return 2
		}
		if r.Rerun != nil {
			reproduced := true
			for k := 0; k < 5 && reproduced; k++ {
				again := r.Rerun(cj)
				ok := false
				for _, a := range again {
					if a.Sig == s {
						ok = true
					}
				}
				if !ok {
					fmt.Fprintf(os.Stderr, "HARNESS-ERROR property=%s: violation sig=%s did not reproduce on re-run %d (case %s); not reported as a finding\n", r.Property, s, k+1, string(cj))
					reproduced = false
				}
			}
			if !reproduced {
				// never reported as a violation; it makes the run a harness error unless another violation
				// of this run does reproduce (then that one is reported and this one is listed in the evidence)
				notReproduced = append(notReproduced, s)
				continue
			}
		}
		newViol++
		exit = 1
		path := filepath.Join(verifDir(), "replays", fmt.Sprintf("%s-%016x.json", r.Property, Hash(s)))
		os.MkdirAll(filepath.Dir(path), 0o755)
		rep := map[string]interface{}{"property": r.Property, "harness": r.Harness, "sig": s, "msg": v.v.Msg, "failing_executions": v.count, "case": json.RawMessage(cj)}
		b, _ := json.MarshalIndent(rep, "", " ")
		os.WriteFile(path, b, 0o644)
		fmt.Fprintf(os.Stderr, "violation sig=%s: %s\n  case: %s\n", s, v.v.Msg, string(cj))
		violLines = append(violLines, fmt.Sprintf("VIOLATION property=%s replay=%s", r.Property, path))
	}
	if len(notReproduced) > 0 && newViol == 0 {
		return 2
	}
	exhaustive := r.Exhaustive && !r.capped.Load()
	// Nontrivial is a plain counter for enumerations that never repeat a case (distinct by construction)
	distinct := int64(len(ntKeys)) + nontriv
	if distinct == 0 {
		distinct = int64(len(outcomes))
	}
	cov := map[string]interface{}{
		"evaluations":                   evals,
		"distinct_nontrivial":           distinct,
		"rule":                          r.Rule,
		"samples":                       samples,
		"states":                        states,
		"transitions":                   trans,
		"traces_validated_against_impl": evals,
		"distinct_outcomes":             len(outcomes),
		"exhaustive":                    exhaustive,
		"bounds":                        r.Bounds,
		"known_findings_hit":            known,
		"explanation":                   "every execution is a run of the real code from /repo's working tree; there is no separate model, so every explored trace is validated against the implementation by construction",
	}
	if len(notReproduced) > 0 {
		cov["signatures_not_reproduced_on_rerun"] = notReproduced
	}
	for k, v := range extra {
		cov[k] = v
	}
	for k, v := range r.Extra {
		cov[k] = v
	}
	if len(samples) == 0 {
		cov["samples"] = []interface{}{"(no sample recorded)"}
	}
	// stages of the same check that ran in another binary (overlay harness) hand their evidence over
	if ms := os.Getenv("VERIF_MERGE_EVIDENCE"); ms != "" {
		stages := map[string]interface{}{}
		var stageOutcomes int64
		for _, p := range strings.Split(ms, ",") {
			b, err := os.ReadFile(p)
			if err != nil {
				fmt.Fprintf(os.Stderr, "HARNESS-ERROR: stage evidence %s missing: %v\n", p, err)
				return 2
			}
			var st map[string]interface{}
			if err := json.Unmarshal(b, &st); err != nil {
				fmt.Fprintf(os.Stderr, "HARNESS-ERROR: stage evidence %s unreadable: %v\n", p, err)
				return 2
			}
			sc, _ := st["coverage"].(map[string]interface{})
			num := func(k string) int64 {
				f, _ := sc[k].(float64)
				return int64(f)
			}
			evals += num("evaluations")
			states += num("states")
			trans += num("transitions")
			distinct += num("distinct_nontrivial")
			if n := num("distinct_outcomes"); n > stageOutcomes {
				stageOutcomes = n
			}
			if ex, ok := sc["exhaustive"].(bool); ok && !ex {
				exhaustive = false
			}
			if v, ok := st["violations"].(float64); ok {
				newViol += int(v)
			}
			stages[filepath.Base(p)] = sc
			if ss, ok := sc["samples"].([]interface{}); ok && len(samples) == 0 && len(ss) > 0 {
				cov["samples"] = ss
				samples = ss
			}
		}
		cov["evaluations"], cov["states"], cov["transitions"], cov["distinct_nontrivial"] = evals, states, trans, distinct
		cov["traces_validated_against_impl"] = evals
		cov["exhaustive"] = exhaustive
		cov["stages"] = stages
		if o, _ := cov["distinct_outcomes"].(int); stageOutcomes > int64(o) {
			// outcome sets of separate processes cannot be united; the largest stage is a lower bound
			cov["distinct_outcomes"] = stageOutcomes
			cov["distinct_outcomes_note"] = "largest single stage (lower bound of the union)"
		}
	}
	seed := 0
	if s, err := strconv.Atoi(os.Getenv("VERIF_SEED")); err == nil {
		seed = s
	}
	if r.Assumptions == nil {
		r.Assumptions = []string{}
	}
	evd := map[string]interface{}{
		"property_id": r.Property,
		"tier":        r.Tier,
		"seed":        seed,
		"level":       r.Level,
		"coverage":    cov,
		"assumptions": r.Assumptions,
		"wall_s":      time.Since(r.start).Seconds(),
		"violations":  newViol,
	}
	evPath := os.Getenv("VERIF_EVIDENCE")
	if evPath == "" {
		evPath = filepath.Join(verifDir(), "evidence", r.Property+".json")
	}
	os.MkdirAll(filepath.Dir(evPath), 0o755)
	b, _ := json.MarshalIndent(evd, "", " ")
	if err := os.WriteFile(evPath, append(b, '\n'), 0o644); err != nil {
		fmt.Fprintf(os.Stderr, "cannot write evidence: %v\n", err)
		return 2
	}
	fmt.Printf("%s %s: executions=%d states=%d transitions=%d distinct_outcomes=%d distinct_nontrivial=%d exhaustive=%v wall=%.1fs\n",
		r.Property, r.Tier, evals, states, trans, len(outcomes), distinct, exhaustive, time.Since(r.start).Seconds())
	for _, l := range knownLines {
		fmt.Println(l)
	}
	for _, l := range violLines {
		fmt.Println(l)
	}
	if exit == 0 {
		fmt.Printf("OK property=%s\n", r.Property)
	}
	return exit
}

// ReplaySig returns the signature recorded in a replay file ("" if absent).
func ReplaySig(path string) string {
	b, err := os.ReadFile(path)
	if err != nil {
		return ""
	}
	var rep struct {
		Sig string `json:"sig"`
	}
	json.Unmarshal(b, &rep)
	return rep.Sig
}

// ReportReplay prints the outcome of re-executing one recorded case and returns the exit status:
// 1 iff the recorded violation (same signature) shows again.
func ReportReplay(property, path string, cj []byte, vs []Violation) int {
	want := ReplaySig(path)
	fmt.Printf("replay of %s (recorded signature %q): case %s\n", path, want, string(cj))
	hit := false
	for _, v := range vs {
		mark := ""
		if want == "" || v.Sig == want {
			hit = true
			mark = "  <- the recorded violation"
		}
		fmt.Printf("violation sig=%s: %s%s\n", v.Sig, v.Msg, mark)
	}
	if !hit {
		fmt.Println("the recorded violation does not occur on this tree")
		return 0
	}
	fmt.Printf("VIOLATION property=%s replay=%s\n", property, path)
	return 1
}

// LoadReplay reads a replay file and returns the raw case.
func LoadReplay(path string) (property string, c json.RawMessage, err error) {
	b, err := os.ReadFile(path)
	if err != nil {
		return "", nil, err
	}
	var rep struct {
		Property string          `json:"property"`
		Case     json.RawMessage `json:"case"`
	}
	if err := json.Unmarshal(b, &rep); err != nil {
		return "", nil, err
	}
	return rep.Property, rep.Case, nil
}
