// Package vtime is a drop-in for the single use of package time in
// cmd/thermal-recorder/cptvfilerecorder.go (time.Now for recording file names, which
// have millisecond resolution). The harness owns the clock: by default every call
// advances it by one millisecond, so names never collide; Step can be set to 0 to
// explore the "clock does not advance between two starts" environment answer.
package vtime

import (
	"time"

	"verifkit/vsched"
)

//go:generate go run ../cmd/genvos

var (
	Cur  = time.Date(2021, 3, 4, 5, 6, 7, 0, time.UTC)
	Step = time.Millisecond
)

func Now() time.Time {
	if t, ok := vsched.Now(); ok { // inside a controlled execution the scheduler owns the clock
		return t
	}
	Cur = Cur.Add(Step)
	return Cur
}

func Since(t time.Time) time.Duration { return Now().Sub(t) }
func Until(t time.Time) time.Duration { return t.Sub(Now()) }

// After: inside a controlled execution the timer fires when the explorer's environment says so.
func After(d time.Duration) <-chan time.Time {
	if ch, ok := vsched.After(d); ok {
		return ch
	}
	return time.After(d)
}

func Sleep(d time.Duration) {
	if _, ok := vsched.Now(); ok {
		vsched.Advance(d)
		vsched.Point("sleep")
		return
	}
	time.Sleep(d)
}

func Reset() {
	Cur = time.Date(2021, 3, 4, 5, 6, 7, 0, time.UTC)
	Step = time.Millisecond
}
