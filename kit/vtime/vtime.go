// Package vtime is a drop-in for the single use of package time in
// cmd/thermal-recorder/cptvfilerecorder.go (time.Now for recording file names, which
// have millisecond resolution). The harness owns the clock: by default every call
// advances it by one millisecond, so names never collide; Step can be set to 0 to
// explore the "clock does not advance between two starts" environment answer.
package vtime

import "time"

//go:generate go run ../cmd/genvos

var (
	Cur  = time.Date(2021, 3, 4, 5, 6, 7, 0, time.UTC)
	Step = time.Millisecond
)

func Now() time.Time {
	Cur = Cur.Add(Step)
	return Cur
}

func Reset() {
	Cur = time.Date(2021, 3, 4, 5, 6, 7, 0, time.UTC)
	Step = time.Millisecond
}
