#!/usr/bin/env python3
"""Regenerates /verif/MANIFEST.json from the table below (single source of truth for
the per-check metadata) and validates it against the schema."""
import json, os, sys
V = os.path.dirname(os.path.dirname(os.path.abspath(__file__)))
props = [json.loads(l) for l in open(os.path.join(V, "properties.jsonl"))]

# id -> (engine, technique, level text, level note, design ref)
CHECKS = {
 "C19": ("A-sequential-explorer",
         "explicit-state BFS to a fixpoint of canonical ring states + exhaustive operation-sequence tree on the real FrameLoop, list reference model",
         "Every sequence of move/set-as-oldest/reset operations to the stated depth, and every reachable canonical ring state (fixpoint, so sequences of any length) for capacities 1..6 (8 thorough), with all four observers compared with a plain-list model after every step. Exhaustive within those bounds; right level because the ring's state space is tiny and closed.",
         "Trusts the list model in harness/checks/c19.go (transcribed from the property statement) and, for the fixpoint only, that ring slots older than 2*cap+2 tags are unobservable (tree mode does not rely on it).",
         "DESIGN.md §4 C19"),
 "C20": ("A-sequential-explorer",
         "exhaustive enumeration of (message, delay) sequences on the real LogLimiter with an owned clock, reference-model oracle",
         "Every sequence of (message, inter-arrival delay) pairs up to length 5 (6 thorough) over a boundary alphabet (interval-1ns, interval, interval+1ns, 0, 1ns, 3*interval), via Print, Printf and alternating, compared step by step with the statement's reference limiter; plus the limiter as wired into a real MotionProcessor (recurring refusal over 3.5 min of injected time at six frame periods). Exhaustive over that alphabet and length.",
         "Messages and delays outside the alphabet are not explored; the clock is injected through the limiter's only func() time.Time field (found by type); output captured from the standard logger.",
         "DESIGN.md §4 C20"),
 "C01": ("A-sequential-explorer",
         "explicit-state BFS to a fixpoint of canonical processor states + exhaustive deviation-bounded enumeration of event strings on the real MotionProcessor (real detector, ring, window); trace oracle on the recorder sink",
         "Fixpoint: every history of any length over {motion frame, still frame} with <=2 deviations (bad frame, camera reset, disk-check/creation refusal, closed window) for every configuration of the recorder lattice (99 quick + 4 fps-2/3 configurations / 297 thorough, ring capacities 1..9), all configurations converge. Trees (key-free second line): every motion bit-string to depth 12 (15) and every string to depth 10 (12) with <=2 deviations, both entry points, plus every string to that depth with one event during which the sink's StopRecording reports an error (on a still, motion or bad frame, or a reset). The sink trace must be consecutive ids, globally increasing, and tile after a near re-trigger.",
         "Streams longer than the depth bound and configurations outside the lattice are not enumerated (the code depends on them only through cap/minF/maxF). Frame identity rides in Status.FrameCount.",
         "DESIGN.md §4 C01"),
 "C02": ("A-sequential-explorer",
         "same fixpoint search and trees as C01; oracle on the first frame written after each successful start",
         "Same executions as C01; for each successful start at trigger t the frames written while t is processed must be exactly max(t-(cap-1), last+1, 1)..t. Every ring phase (wrap position x mark position x not-yet-full) of capacities 1..9 is reached by the enumeration.",
         "As C01.",
         "DESIGN.md §4 C02"),
 "C03": ("A-sequential-explorer",
         "explicit-state BFS to a fixpoint + exhaustive enumeration of motion bit-strings over a min/max-length lattice on the real MotionProcessor; per-recording stop-position oracle",
         "Every motion bit-string of length min(15 (19 thorough), cap+2*maxF+3) for every configuration of a lattice built around the limits (min-secs 0..4, max-secs up to min+4, fps 1..3, preview 0/1, trigger 0..2), so motion at every offset incl. the last frame before the limit and the frame at the cap; stop position must equal the first offset p >= min(q+minF-1, maxF). Plus the same lattice and the general recorder lattice with <=1 deviation, incl. a StopRecording of an earlier recording that reports an error (the next recording must still have the stated length).",
         "Configurations whose two-recording horizon exceeds the depth cap are covered to the cap only (count reported in evidence).",
         "DESIGN.md §4 C03"),
 "C04": ("A-sequential-explorer",
         "explicit-state BFS to a fixpoint with every gate answer available at every frame + exhaustive deviation-bounded trees of motion strings x per-frame gate answers (real window.Window with injected clock at the boundaries, disk check, file creation); iff-oracle",
         "Every event string to depth 8 (9) with <=2 (3) per-frame gate deviations from the full menu (window clock at start-1ns/start/start+1s/stop-1ns/stop/stop+1s/other day for a day window, a window spanning midnight and no window; disk check refused; creation refused; combinations), trigger-frames 0..3; a start must happen iff all five conditions of the statement hold, using the harness's own interval arithmetic. Overlay stage: the real free-disk-space check at every boundary position of min-disk-space.",
         "The disk check is an abstract gate answer in the processor-level exploration; it is bound to the real code by an overlay stage (cmd/thermal-recorder): checkDiskSpace, CheckCanRecord and the min-disk-space-mb setting end to end through handleConn, with min-disk-space at 0, 1, free-1, free, free+1, 2*free, 2^40, 2^44, 2^44+1, 2^50, 2^62 (2^63, 2^64-1 direct) MB relative to the free space measured by the harness (free space itself cannot be injected without a hook; cases during which it moved are repeated, then skipped).",
         "DESIGN.md §4 C04"),
 "C05": ("A-sequential-explorer",
         "explicit-state BFS to a fixpoint + exhaustive bounded tree on the real ThrottledRecorder with injected clock; arrival-curve monitor; composition under the real MotionProcessor",
         "All request/clock schedules of any length (fixpoint on canonical keys, 10 exact-tick parameter sets) and all well-formed strings to depth 7 (10) for those plus 2 awkward rates; frames reaching the wrapped recorder are checked against bucket + refill earned (+1% and 2 frames) on every interval by an arrival-curve monitor carried in the state. The same throttle under the real motion processor: every motion bit-string to depth 12 (16) with clock jumps/resets/bad frames, and 400-frame continuous/burst patterns.",
         "Stage (c): main.go's wiring (activate flag, min+preview as minimum length, bucket) runs end to end through the real handleConn in an overlay stage (14 setting relations x 60 frames of continuous motion) whose evidence is merged into this file. The fixpoint key reads juju/ratelimit private fields (library version pinned by go.mod); the tree does not.",
         "DESIGN.md §4 C05"),
 "C06": ("A-sequential-explorer",
         "same exploration as C05 with failing wrapped-recorder starts as deviations; step-by-step reference-model oracle and pairing monitor",
         "Same fixpoint and tree as C05 with the wrapped recorder's start failing at arbitrary calls (<=1 quick, <=2 thorough per string; unbounded in the fixpoint); every upstream call is compared with the statement's reference (forwarded unchanged with budget, cut on an empty bucket, restart only with >= one minimum clip, remembered background/threshold, exactly one event per suppressed start or cut, paired start/write/stop, cut files >= minimum length).",
         "Budget is read with Bucket.Available() at the same clock instant as each request (idempotent).",
         "DESIGN.md §4 C06"),
 "C12": ("A-sequential-explorer",
         "explicit-state BFS to a fixpoint with per-event failing sink calls + exhaustive enumeration of event strings x fault placements on the real MotionProcessor with three protocol-monitored sinks (and, first stage, three real file recorders with every file-system operation failing); recovery suffix",
         "Every event string over {motion frame, still frame, bad frame, reset, test-recording request} to length 6 (7) with every placement of one failing sink call, and to length 4 (6) with every pair, continuous recorder on/off, 6 (8) configurations incl. the real Lepton parser; per-sink protocol monitors, recovered panics, and a fault-free suffix that must be recorded exactly as predicted.",
         "First stage (overlay): the same processor with three REAL CPTVFileRecorders, every event string of length 3 (4) with every single file-system operation failing (os->vos), no panic allowed. Second stage: harness monitors with CPTVFileRecorder's closing behaviour (closed even when stop errors).",
         "DESIGN.md §4 C12"),
 "C13": ("A-sequential-explorer",
         "explicit-state BFS to a fixpoint over {motion, still, bad frame} keyed on the pair (run, run with bad frames deleted) + exhaustive trees on the real MotionProcessor (harness parser and real lepton3.ParseRawFrame) with a differential oracle; exhaustive zero-pixel-position / boundary-value sweeps of the Lepton and Boson parsers",
         "Processor level: every {motion, still} string to depth 10 (12) with <=2 (3) bad frames at any position, recorder lattice, plus passes with the real Lepton parser and with continuous/test recordings on; bad ids must never reach a sink, the open recording must end within the bad-frame event, and deleting the bad frames must not change detection results or (outside a cut) the sink trace. Parser level: every single and double zero position x edge-pixels 0..2 x three resolutions, every pixel position x six byte-order-revealing values, telemetry words over boundary values.",
         "The Boson parser (package main) is swept the same way in an overlay stage (plus streams with bad frames through the real handleConn); its evidence is merged. Arbitrary 16-bit frame contents outside the alphabets are not enumerated.",
         "DESIGN.md §4 C13"),
 "C17": ("A-sequential-explorer",
         "explicit-state BFS to a fixpoint over {motion, still, reset, request} (request at every offset, streams of any length) + exhaustive prefix enumeration x tail-pattern menu on the real MotionProcessor with monitored continuous/test/motion sinks; differential against the request-free run",
         "Every prefix over {motion, still, reset} of length 6 (8), then a test-recording request, one of six 23-frame tail patterns, a second request and a second tail; 48 configurations (max-secs 0..4, fps 1..3, continuous on/off, window open/closed, motion sink throttled). Continuous sink must tile the stream in files of max-secs*fps+1 frames; each request must give exactly 21 consecutive frames from the next processed frame; the motion-sink trace must equal the request-free run.",
         "Tails are drawn from a fixed menu rather than all 2^23 patterns; file placement and space-based pruning of constant-recordings/ depend on the live file system and are not enumerated.",
         "DESIGN.md §4 C17"),
 "C07": ("A-sequential-explorer",
         "exhaustive enumeration of complete frame sequences over boundary-value alphabets on the real detector, oracle = transcription of the statement",
         "Value sweep: every 4-frame sequence with one varying interior pixel over the boundary alphabet at every interior position, every 3-frame (4 thorough) sequence for every pixel pair over 4 values, all-interior binary images, on non-square resolutions (rowStop/columnStop distinguishable) with edge 0 and 1, gap 1-2, count-thresh 1,2,#interior, warmer-only x one-diff. Phase sweep: every binary sequence of length 2(gap+1)+3 for gap 1..4 with a camera reset at every position (every ring phase of the detector's comparison buffer and the fewer-than-gap-frames fallback).",
         "Universality over pixel data is outside state enumeration: values outside the alphabet {T-1,T,T+1,T+d,T+d+1,T+2d+2,0,1,65535} and images beyond 5x4 are not enumerated.",
         "DESIGN.md §4 C07"),
 "C08": ("A-sequential-explorer",
         "exhaustive enumeration of stream pairs (base stream x single/all border perturbation x frame position; cold-pixel substitutions) through the real detector and processor; relational oracle",
         "Every 3-frame (4) base stream with one varying interior pixel over 6 boundary values at every interior position x every single border pixel rewritten with {0,65535} ({0,1,T,65535}) in each frame and in all frames, all border pixels at once, and every sub-threshold interior pixel replaced by another value <= T; resolutions 5x4, 4x5 (edge 1), 6x5 (edge 2); fixed threshold (4 modes) and dynamic threshold with bounds unset/set; stage 2: every pattern of {normal, inside an FFC period, camera reset} over 4 frames x one varying interior pixel x border perturbations (single border pixels and the whole border, one frame or all frames). Detection results, sink traces (incl. threshold/background at each start) and the interior background/threshold after every frame must be identical within a pair.",
         "Deep layer reads detector.background/tempThresh by name; perturbation values outside the stated sets are not enumerated.",
         "DESIGN.md §4 C08"),
 "C09": ("A-sequential-explorer",
         "exhaustive enumeration of streams with FFC periods and resets on the real detector; suppression oracle + relational independence oracle over the whole enumerated set",
         "Every stream of length 2..6 (8) over three scenes x {FFC-affected, not} with <=2 FFC periods of any length and <=1 reset at any position, FFC timing at the 10 s boundary values, gap 1..3 x one-diff x warmer-only x fixed/dynamic threshold. (i) no FFC frame nor the frame after a period reports motion; (ii) streams agreeing from the first frame after the last FFC period (or reset, fixed threshold) must agree on all results from there on.",
         "One open known finding (dynamic threshold kept across a reset that coincides with an FFC period) is listed in KNOWN_FINDINGS.jsonl and reported as KNOWN-FINDING; any other dependence is a VIOLATION.",
         "DESIGN.md §4 C09"),
 "C15": ("A-sequential-explorer",
         "exhaustive enumeration of streams (values around the threshold bounds, FFC period, reset) on the real detector with dynamic threshold; invariant oracle after every frame and at every StartRecording",
         "Every stream of length 3..5 (6) over per-pixel alphabets placing the scene mean below/inside/above [min,max], interiors of 1, 2 and 4 pixels (edge 0,1,2), <=1 FFC period and <=1 reset at any position, (min,max) unset/set in all four combinations, preview frames 0..2: background <= frame, border replication, re-seed after FFC/reset, threshold unchanged or the bounded mean, stored background/threshold equal the ones in force at the trigger.",
         "Deep layer reads detector.background/tempThresh by name (API layer via StartRecording arguments needs no private access).",
         "DESIGN.md §4 C15"),
 "C10": ("C-crash-point-enumerator",
         "exhaustive crash-point / torn-write enumeration of short recording histories on the real CPTVFileRecorder + go-cptv writer (os->vos import-rewrite overlay), directory oracle at every operation boundary and after the real start-up clean-up",
         "For each of eight recording histories (single, back-to-back, discarded on connection loss, failing start then StopRecording for the motion and the continuous recorder, motion+test interleaved, motion+continuous, 120-frame recording with several buffer flushes) and frame sizes 8x6 (and 160x120 thorough): one run with a concurrent-observer decode of every *.cptv at EVERY file-system operation boundary, then one run per crash point (kill before operation k, k=1..N) and per torn write, each followed by the real deleteTempFiles; for every crash point also a second kill before every operation of that clean-up followed by a further start-up, and second generations (after crash and clean-up the restarted daemon records a further history into the same directory and is killed before every one of its operations, then cleans up again); only complete, content-exact recordings may bear .cptv and nothing else may remain.",
         "Process-kill semantics (completed operations persist, user-space buffers lost); power loss / fsync ordering is not modelled (C10 does not claim it). The shim is swapped in by rewriting the `os`/`time` imports of copies of cptvfilerecorder.go and go-cptv's writer.go/filewriter.go at check time.",
         "DESIGN.md §4 C10"),
 "C11": ("D-end-to-end-driver",
         "exhaustive pair/boundary enumeration of frame contents and metadata through the real CPTVFileRecorder and standard reader; end-to-end enumeration of config.toml setting combinations through the real ParseConfig + handleConn on an in-memory connection, differential against a harness-wired real MotionProcessor",
         "Recorder level: every ordered pair of images over a 3-pixel (quick, 46 656 pairs) / 4-pixel (thorough, 1.68 M pairs) block x six byte-boundary values as consecutive frames, every position x value on 8x6 (sampled on 160x120), telemetry/ids/strings (0,1,255 bytes, YAML-hostile)/location components/threshold/preview/fps one field at a time. End to end: every combination of camera model (boson, lepton3, lepton3.5 with model motion defaults) x (min,max,preview) x trigger frames x throttling x continuous recorder, each with a motion-burst stream (thorough: three motion patterns, one still in progress when the connection ends), plus a TakeTestRecording request through the service before/during/after the motion recording, plus the camera reconnecting as another model on the same daemon (continuous recorder on); every finished file is compared frame by frame and field by field with the recording predicted from the settings.",
         "Universality over 16-bit data is outside what enumeration gives (alphabets are stated in the evidence). Empty brand/model/firmware strings are stored as 'absent' by the format and not compared. Throttling with min-secs+preview-secs = 0 is excluded (library panic, noted in DESIGN.md).",
         "DESIGN.md §4 C11"),
 "C14": ("D-end-to-end-driver",
         "exhaustive enumeration of camera descriptions x truncation points on ReadHeaderInfo; exhaustive enumeration of frame/marker arrangements x read segmentations (all single cut points, pairs around markers, one-byte reads) through the real handleConn; static extraction of marker/keys from both daemons",
         "Header: 972 camera descriptions encoded as the camera daemon does, with a sentinel after the blank line, and every truncation point of a subset. Stream: every arrangement of 3 (6 thorough) frames with <=2 'clear' markers at any gap, under greedy reads, one-byte reads, every single cut point of the byte stream and every pair of cut points around header end and markers; resulting files must equal the recordings predicted by driving a real MotionProcessor directly (each frame once, in order, reset at each marker); the marker's effect is also stated absolutely (a recording open at the marker never holds the frame after it; a level change only across the marker is not recorded, while it is without the marker).",
         "sendCameraSpecs needs camera hardware: its 3-line encoder is reproduced and bound to the source by the static extraction (stage c), which is syntactic, not an exploration. Pairs of cuts away from markers/header end are enumerated for one arrangement only (frame-marker-frame, thorough tier); three or more cuts are covered by the one-byte-read mode only.",
         "DESIGN.md §4 C14"),
 "C16": ("B-controlled-scheduler",
         "stateless exploration of all interleavings up to a preemption bound (iterative context bounding) of the real handleConn and the real request paths under a cooperative scheduler, on syntactically instrumented copies of the sources; vector-clock happens-before race detection on watched locations",
         "Six scenarios (ring capacity 1,2,3; one or two snapshots; test-recording request; CameraInfo; reconnect with a complete and with a truncated header): every interleaving with <=1 (quick; <=2 on the two smallest scenarios) / <=3 (thorough, 14 processes, complete: 2.2e7 executions) preemptions, scheduling points at every lock operation, every access to processor/headerInfo/CurrentFrame/StartSnapshot/ring index and every statement of the Boson parse loop and Frame.Copy/CreateCopy. Oracle: snapshots are uniform-valued (not a mixture), independent copies, not older than the last frame processed when requested, and are returned at all once a frame of the connection has been received; an accepted test-recording request is pending, in progress or on disk at the end; after every execution the lastFrame filter is probed sequentially; no deadlock/panic, all frames processed, no watched conflicting accesses unordered by lock happens-before.",
         "Five genuine defects are recorded as known findings (races on processor, headerInfo, CurrentFrame, StartSnapshot; torn snapshot at ring capacity 1) and printed as KNOWN-FINDING; one (CameraInfo nil dereference) was fixed. SC interleavings at instrumented points; weak-memory effects only via the race check. D-Bus transport itself is not modelled (the service methods TakeSnapshot / TakeTestRecording / CameraInfo are called directly).",
         "DESIGN.md §4 C16"),
 "C18": ("B-controlled-scheduler",
         "stateless exploration of all interleavings up to a deviation bound (preemptions + timer fires) of thermal-writer's real reader and writer goroutines under a cooperative scheduler; happens-before race detection on the frame buffers; CPTR parse oracle",
         "The real handleConn + writer on instrumented copies (channel send/receive/close, go, select with the rotation timer and Go's random pick as explored choices): buffer pool scaled to 1,2,3 with 0..2N+2 frames, trailing partial frame, short read, the original 256 with 258 frames (bound 1), a read boundary at every offset of a 3-frame stream (bound 1), frame sizes 1, 7, 9 and 70000 bytes (bound 1), and the camera reconnecting within the same process with another frame size; every interleaving with <=2 (3 thorough) deviations. Files must parse as CPTR and concatenate to exactly the frames sent; no deadlock/panic; buffer fill and buffer write must be ordered by channel happens-before.",
         "inFlight and the 32 MiB bufio size are scaled by the instrumenter (run-time parameter / literal override); the bound-2/3 scenarios use 8-byte frames. Thorough: 14 processes, bound 3 complete, bound 4 under a 35-minute cap (reported per scenario; exhaustive:false then refers to bound 4). SC interleavings at channel-operation granularity + HB race check.",
         "DESIGN.md §4 C18"),
}
NOT_BUILT = "check not built yet (work in progress)"

def main():
    checks, na = [], []
    for p in props:
        i = p["id"]
        if i in CHECKS:
            eng, tech, text, note, ref = CHECKS[i]
            checks.append({
                "property_id": i,
                "quick_cmd": f"bin/check {i} quick",
                "thorough_cmd": f"bin/check {i} thorough",
                "evidence_file": f"/verif/evidence/{i}.json",
                "replay_cmd_template": f"bin/check {i} --replay {{path}}",
                "engine": eng,
                "level_claimed": {"category": "model_checking", "text": text, "design_ref": ref},
                "level_note": note,
                "technique": tech,
            })
        else:
            na.append({"property_id": i, "reason": NOT_BUILT})
    m = {
        "version": 1,
        "setup_cmd": "bin/setup",
        "hooks": {
            "guard": "verif",
            "enable": "no repository hooks are needed: harnesses and instrumentation are injected at check time with go build/test -overlay and -modfile; /repo is never edited",
            "baseline_off_cmd": "cd /repo && GOFLAGS=-mod=mod GOPROXY=off GOSUMDB=off go test -vet=off -count=1 ./...",
            "source_commits": [],
            "add_only": True,
        },
        "engines": [
            {"name": "A-sequential-explorer", "path": "kit/ev, kit/canon, harness/checks", "serves_properties": sorted(i for i in CHECKS if CHECKS[i][0].startswith("A")),
             "kind_free_text": "stateless exhaustive enumeration of operation/event/environment-answer sequences on fresh real objects + explicit-state BFS on reflection-derived canonical keys"},
            {"name": "B-controlled-scheduler", "path": "kit/vsched, kit/vsync, kit/vtime, kit/cmd/vinstr, bin/overlay.sh", "serves_properties": sorted(i for i in CHECKS if CHECKS[i][0].startswith("B-")),
             "kind_free_text": "cooperative scheduler + iterative-context-bounding DFS explorer + vector-clock race detector; repository sources are instrumented syntactically at check time (go/ast) and swapped in with a build overlay"},
            {"name": "D-end-to-end-driver", "path": "harness/overlay/thermal-recorder/e2e_test.go", "serves_properties": sorted(i for i in CHECKS if CHECKS[i][0].startswith("D-")) + ["C05", "C13"],
             "kind_free_text": "in-memory net.Conn with an explicit segmentation schedule + generated config.toml driving the real ParseConfig/handleConn; results are the files on disk"},
            {"name": "C-crash-point-enumerator", "path": "kit/vos, kit/vtime, bin/overlay.sh, harness/overlay/thermal-recorder", "serves_properties": sorted(i for i in CHECKS if CHECKS[i][0].startswith("C-")),
             "kind_free_text": "file-system operation numbering shim swapped in by import-rewrite overlay; every operation boundary is an observation point and a crash point"},
        ],
        "checks": checks,
        "notes": "All checks run the real code of /repo's working tree; see DESIGN.md. KNOWN_FINDINGS.jsonl lists recorded genuine defects.",
    }
    if na:
        m["not_applicable"] = na
    json.dump(m, open(os.path.join(V, "MANIFEST.json"), "w"), indent=1)
    try:
        import jsonschema
        jsonschema.validate(m, json.load(open("/root/.vp/MANIFEST.schema.json")))
        print("MANIFEST.json valid:", len(checks), "checks,", len(na), "not claimed")
    except ImportError:
        print("jsonschema not importable; MANIFEST.json written unvalidated")

if __name__ == "__main__":
    main()
