# sourced by bin/check: builds and runs harnesses that live inside the repository's
# package main (injected as _test.go files through a go build overlay; /repo untouched).
#
#   run_overlay <ID> <args...>
#
# Uses: VERIF, REPO, SCRATCH (set by bin/check).

json_escape() { printf '%s' "$1" | sed 's/\\/\\\\/g; s/"/\\"/g'; }

run_overlay() {
  local ID=$1; shift
  local PKG=cmd/thermal-recorder
  [ "$ID" = C18 ] && PKG=cmd/thermal-writer
  local HDIR="$VERIF/harness/overlay/$(basename "$PKG")"
  local OV="$SCRATCH/ov.json" first=1
  # module file: repository's go.mod + the kit
  cp "$REPO/go.mod" "$SCRATCH/repo.mod"
  printf '\nrequire verifkit v0.0.0\nreplace verifkit => %s/kit\n' "$VERIF" >> "$SCRATCH/repo.mod"
  cp "$REPO/go.sum" "$SCRATCH/repo.sum"
  local CPTV
  CPTV=$(cd "$REPO" && go list -modfile="$SCRATCH/repo.mod" -m -f '{{.Dir}}' github.com/TheCacophonyProject/go-cptv) || { echo "cannot locate go-cptv" >&2; return 2; }
  printf '{"Replace":{' > "$OV"
  add() { [ $first = 1 ] || printf ',' >> "$OV"; first=0; printf '"%s":"%s"' "$(json_escape "$1")" "$(json_escape "$2")" >> "$OV"; }
  for f in "$HDIR"/*.go; do
    [ -e "$f" ] || continue
    add "$REPO/$PKG/zz_verif_$(basename "$f")" "$f"
  done
  if [ "$PKG" = cmd/thermal-recorder ]; then
    # Engine C: the recording write path talks to the file system through kit/vos and
    # takes recording names from kit/vtime (pure import rewrites of copies of the current sources)
    mkdir -p "$SCRATCH/patched"
    sed 's#^\t"os"$#\tos "verifkit/vos"#; s#^\t"time"$#\ttime "verifkit/vtime"#' "$REPO/$PKG/cptvfilerecorder.go" > "$SCRATCH/patched/cptvfilerecorder.go"
    grep -q 'verifkit/vos' "$SCRATCH/patched/cptvfilerecorder.go" || { echo "HARNESS-ERROR: cptvfilerecorder.go no longer imports \"os\" in the expected form" >&2; return 2; }
    add "$REPO/$PKG/cptvfilerecorder.go" "$SCRATCH/patched/cptvfilerecorder.go"
    for f in writer.go filewriter.go; do
      sed 's#^\t"os"$#\tos "verifkit/vos"#' "$CPTV/$f" > "$SCRATCH/patched/cptv_$f"
      grep -q 'verifkit/vos' "$SCRATCH/patched/cptv_$f" || { echo "HARNESS-ERROR: go-cptv $f does not import os as expected" >&2; return 2; }
      add "$CPTV/$f" "$SCRATCH/patched/cptv_$f"
    done
  fi
  if [ "$PKG" = cmd/thermal-writer ]; then
    # Engine B: reader/writer goroutines under the controlled scheduler (kit/vsched); the sources are
    # instrumented copies of the CURRENT files (kit/cmd/vinstr, purely syntactic)
    mkdir -p "$SCRATCH/instr"
    (cd "$VERIF/kit" && go build -o "$SCRATCH/vinstr" ./cmd/vinstr) || { echo "BUILD FAILED (vinstr)" >&2; return 2; }
    "$SCRATCH/vinstr" -in "$REPO/$PKG/main.go" -out "$SCRATCH/instr/main.go" -imports time=verifkit/vtime -const inFlight=@param -watch-call io.ReadFull:1:w,writeFrame:1:r || return 2
    "$SCRATCH/vinstr" -in "$REPO/$PKG/thermalraw.go" -out "$SCRATCH/instr/thermalraw.go" -imports time=verifkit/vtime || return 2
    "$SCRATCH/vinstr" -in "$REPO/$PKG/bufferedfile.go" -out "$SCRATCH/instr/bufferedfile.go" -expr '32*1024*1024=65536' || return 2
    for f in main.go thermalraw.go bufferedfile.go; do add "$REPO/$PKG/$f" "$SCRATCH/instr/$f"; done
  fi
  if [ "$ID" = C16 ]; then
    # Engine B for the snapshot/D-Bus request paths vs. the frame loop (only in the C16 build: the
    # controlled mutex replaces sync.Mutex in these copies)
    mkdir -p "$SCRATCH/instr"
    (cd "$VERIF/kit" && go build -o "$SCRATCH/vinstr" ./cmd/vinstr) || { echo "BUILD FAILED (vinstr)" >&2; return 2; }
    local W="-watch-var processor,headerInfo -watch-field CurrentFrame,StartSnapshot,currentIndex"
    "$SCRATCH/vinstr" -in "$REPO/motion/frameloop.go" -out "$SCRATCH/instr/frameloop.go" -imports sync=verifkit/vsync $W || return 2
    "$SCRATCH/vinstr" -in "$REPO/motion/motionprocessor.go" -out "$SCRATCH/instr/motionprocessor.go" $W || return 2
    "$SCRATCH/vinstr" -in "$REPO/$PKG/main.go" -out "$SCRATCH/instr/main.go" $W || return 2
    "$SCRATCH/vinstr" -in "$REPO/$PKG/snapshot.go" -out "$SCRATCH/instr/snapshot.go" -imports sync=verifkit/vsync,time=verifkit/vtime $W || return 2
    "$SCRATCH/vinstr" -in "$REPO/$PKG/service.go" -out "$SCRATCH/instr/service.go" $W || return 2
    "$SCRATCH/vinstr" -in "$REPO/$PKG/boson.go" -out "$SCRATCH/instr/boson.go" -points-in convertRawBosonFrame || return 2
    "$SCRATCH/vinstr" -in "$CPTV/cptvframe/frame.go" -out "$SCRATCH/instr/frame.go" -points-in Copy,CreateCopy || return 2
    add "$REPO/motion/frameloop.go" "$SCRATCH/instr/frameloop.go"
    add "$REPO/motion/motionprocessor.go" "$SCRATCH/instr/motionprocessor.go"
    for f in main.go snapshot.go service.go boson.go; do add "$REPO/$PKG/$f" "$SCRATCH/instr/$f"; done
    add "$CPTV/cptvframe/frame.go" "$SCRATCH/instr/frame.go"
  fi
  if [ -n "${VERIF_EXTRA_OVERLAY:-}" ]; then . "$VERIF_EXTRA_OVERLAY"; fi
  printf '}}\n' >> "$OV"
  ( cd "$REPO/$PKG" && GODEBUG=goindex=0 go test -c -overlay "$OV" -modfile="$SCRATCH/repo.mod" -vet=off -o "$SCRATCH/ovl.test" . ) || { echo "BUILD FAILED (overlay harness for $ID against $REPO)" >&2; return 2; }
  mkdir -p "$SCRATCH/run"
  if [ "${1:-}" = "$ID" ]; then shift; fi
  local REPLAY=""
  if [ "${1:-}" = "--replay" ]; then REPLAY=$2; fi
  ( cd "$SCRATCH/run" && VERIF_REPLAY="$REPLAY" VERIF_PROPERTY="$ID" "$SCRATCH/ovl.test" -test.run "^TestVerif${ID}\$" -test.timeout 0 -test.count 1 )
  return $?
}
