module verifharness

go 1.21

require (
	github.com/TheCacophonyProject/go-config v1.6.4
	github.com/TheCacophonyProject/go-cptv v0.0.0-20211109233846-8c32a5d161f7
	github.com/TheCacophonyProject/lepton3 v0.0.0-20210324024142-003e5546e30f
	github.com/TheCacophonyProject/thermal-recorder v0.0.0
	github.com/TheCacophonyProject/window v0.0.0-20200312071457-7fc8799fdce7
	github.com/juju/ratelimit v1.0.1
	verifkit v0.0.0
)

require (
	github.com/fsnotify/fsnotify v1.4.7 // indirect
	github.com/godbus/dbus v4.1.0+incompatible // indirect
	github.com/gofrs/flock v0.7.1 // indirect
	github.com/hashicorp/hcl v1.0.0 // indirect
	github.com/magiconair/properties v1.8.1 // indirect
	github.com/mitchellh/mapstructure v1.1.2 // indirect
	github.com/nathan-osman/go-sunrise v0.0.0-20171121204956-7c449e7c690b // indirect
	github.com/pelletier/go-toml v1.6.0 // indirect
	github.com/spf13/afero v1.6.0 // indirect
	github.com/spf13/cast v1.3.0 // indirect
	github.com/spf13/jwalterweatherman v1.1.0 // indirect
	github.com/spf13/pflag v1.0.5 // indirect
	github.com/spf13/viper v1.5.0 // indirect
	github.com/subosito/gotenv v1.2.0 // indirect
	golang.org/x/sys v0.0.0-20210315160823-c6e025ad8005 // indirect
	golang.org/x/text v0.3.4 // indirect
	gopkg.in/tomb.v2 v2.0.0-20161208151619-d5d1b5820637 // indirect
	gopkg.in/yaml.v2 v2.2.8 // indirect
	periph.io/x/periph v3.6.7+incompatible // indirect
)

replace github.com/TheCacophonyProject/thermal-recorder => /repo

replace verifkit => /verif/kit

// We maintain a custom fork of periph.io at the moment (mirrors /repo/go.mod).
replace periph.io/x/periph => github.com/TheCacophonyProject/periph v2.1.1-0.20200615222341-6834cd5be8c1+incompatible
