package main

// Harness injected into package main of cmd/thermal-writer (bin/overlay.sh); main.go,
// thermalraw.go and bufferedfile.go are instrumented copies of the current sources.

import (
	"bufio"
	"bytes"
	"encoding/binary"
	"encoding/json"
	"fmt"
	"io"
	"log"
	"net"
	"os"
	"path/filepath"
	"runtime"
	"sort"
	"strings"
	"sync"
	"testing"
	"time"

	cptv "github.com/TheCacophonyProject/go-cptv"
	yamlv1 "gopkg.in/yaml.v1"

	"github.com/TheCacophonyProject/thermal-recorder/headers"

	"verifkit/ev"
	"verifkit/vsched"
)

// C18 — thermal-writer stores every frame once, in order, in well-formed CPTR files.

type c18Case struct {
	InFlight int   `json:"in_flight"`     // size of the buffer pool (the constant inFlight, scaled)
	Frames   int   `json:"frames"`        // complete frames sent
	Tail     int   `json:"tail_bytes"`    // trailing partial frame
	Cut      int   `json:"short_read_at"` // a read never crosses this stream offset (0 = none)
	Bound    int   `json:"bound,omitempty"`
	Timers   int   `json:"timer_fires"`
	Size     int   `json:"frame_size,omitempty"`                   // frame size of the (first) connection; 0 = 8
	Second   int   `json:"second_connection_frame_size,omitempty"` // >0: the camera reconnects (same process) with this frame size and sends Frames frames again
	Choices  []int `json:"choices,omitempty"`                      // schedule (replay)
}

type c18Conn struct {
	data []byte
	pos  int
	cut  int
}

func (c *c18Conn) Read(p []byte) (int, error) {
	if c.pos >= len(c.data) {
		return 0, io.EOF
	}
	n := len(p)
	if n > len(c.data)-c.pos {
		n = len(c.data) - c.pos
	}
	if c.cut > c.pos && c.cut < c.pos+n {
		n = c.cut - c.pos
	}
	copy(p, c.data[c.pos:c.pos+n])
	c.pos += n
	return n, nil
}
func (c *c18Conn) Write(p []byte) (int, error)        { return len(p), nil }
func (c *c18Conn) Close() error                       { return nil }
func (c *c18Conn) LocalAddr() net.Addr                { return &net.UnixAddr{Name: "verif", Net: "unix"} }
func (c *c18Conn) RemoteAddr() net.Addr               { return &net.UnixAddr{Name: "verif", Net: "unix"} }
func (c *c18Conn) SetDeadline(t time.Time) error      { return nil }
func (c *c18Conn) SetReadDeadline(t time.Time) error  { return nil }
func (c *c18Conn) SetWriteDeadline(t time.Time) error { return nil }

const c18FrameSize = 8

func c18Header() []byte { return c18HeaderN(c18FrameSize) }

func c18HeaderN(size int) []byte {
	specs := map[string]interface{}{headers.XResolution: 2, headers.YResolution: 2, headers.FrameSize: size, headers.Model: "lepton3", headers.Brand: "flir", headers.FPS: 9, headers.Serial: 1, headers.Firmware: "1.0.0"}
	b, _ := yamlv1.Marshal(specs)
	return append(b, '\n')
}

func c18Frame(i int) []byte { return c18FrameN(i, c18FrameSize) }

func (c c18Case) size() int {
	if c.Size > 0 {
		return c.Size
	}
	return c18FrameSize
}

func c18FrameN(i, size int) []byte {
	f := make([]byte, size)
	if size < 8 {
		for k := range f {
			f[k] = byte(i*31 + k*7 + 1)
		}
		return f
	}
	binary.BigEndian.PutUint32(f, uint32(0xF0000000+i))
	binary.BigEndian.PutUint32(f[4:], uint32(i*2654435761))
	for k := 8; k < size; k++ {
		f[k] = byte(i + k)
	}
	return f
}

var frameLogIntervalFirstMin0, frameLogInterval0 = frameLogIntervalFirstMin, frameLogInterval

// parseCPTR parses one file: magic, version, header section, then only frame sections.
func parseCPTR(path string) (frames [][]byte, err error) {
	b, err := os.ReadFile(path)
	if err != nil {
		return nil, err
	}
	if len(b) < 6 || string(b[:4]) != "CPTR" {
		return nil, fmt.Errorf("bad magic %q", b[:imin(4, len(b))])
	}
	if b[4] != 0x02 {
		return nil, fmt.Errorf("version %d", b[4])
	}
	if b[5] != 'H' {
		return nil, fmt.Errorf("first section is %q, expected header", b[5])
	}
	r := bufio.NewReader(bytes.NewReader(b[6:]))
	hf, err := cptv.ReadFields(r)
	if err != nil {
		return nil, fmt.Errorf("header fields: %v", err)
	}
	if m, _ := hf.String(cptv.Model); m != "lepton3" {
		return nil, fmt.Errorf("header model %q", m)
	}
	if br, _ := hf.String(cptv.Brand); br != "flir" {
		return nil, fmt.Errorf("header brand %q", br)
	}
	if x, _ := hf.Uint32(cptv.XResolution); x != 2 {
		return nil, fmt.Errorf("header x resolution %d", x)
	}
	if y, _ := hf.Uint32(cptv.YResolution); y != 2 {
		return nil, fmt.Errorf("header y resolution %d", y)
	}
	if fps, _ := hf.Uint8(cptv.FPS); fps != 9 {
		return nil, fmt.Errorf("header fps %d", fps)
	}
	if dn, _ := hf.String(cptv.DeviceName); dn != "c18-device" {
		return nil, fmt.Errorf("header device name %q", dn)
	}
	if id, _ := hf.Uint32(cptv.DeviceID); id != 77 {
		return nil, fmt.Errorf("header device id %d", id)
	}
	// the file's creation time (from the harness-owned clock: 2023-11-14T22:13:20Z + virtual time, never before it)
	if ts, err := hf.Timestamp(cptv.Timestamp); err != nil {
		return nil, fmt.Errorf("header has no timestamp field (%v)", err)
	} else if ts.Before(time.Unix(1_700_000_000, 0)) || ts.After(time.Unix(1_700_000_000, 0).Add(24*time.Hour)) {
		return nil, fmt.Errorf("header timestamp %v is not the file's creation time", ts.UTC())
	}
	if comp, err := hf.Uint8(cptv.Compression); err != nil || comp != 0 {
		return nil, fmt.Errorf("header compression field %d (%v), expected 0 = uncompressed", comp, err)
	}
	for {
		sec, err := r.ReadByte()
		if err == io.EOF {
			return frames, nil
		}
		if sec != 'F' {
			return frames, fmt.Errorf("section %q after %d frames, expected a frame section", sec, len(frames))
		}
		ff, err := cptv.ReadFields(r)
		if err != nil {
			return frames, fmt.Errorf("frame %d fields: %v", len(frames)+1, err)
		}
		sz, err := ff.Uint32(cptv.FrameSize)
		if err != nil {
			return frames, fmt.Errorf("frame %d: no length field", len(frames)+1)
		}
		data := make([]byte, sz)
		if _, err := io.ReadFull(r, data); err != nil {
			return frames, fmt.Errorf("frame %d: payload truncated (%v)", len(frames)+1, err)
		}
		frames = append(frames, data)
	}
}

// fastTmp: one directory per harness process (memory-backed when possible) for the thousands of tiny output
// directories; it is removed when the test ends, and roots left behind by harness processes that no longer
// exist (killed runs) are removed first, so that nothing accumulates.
var (
	c18RootOnce sync.Once
	c18Root     string
)

func fastTmp() string {
	c18RootOnce.Do(func() {
		base := os.TempDir()
		if st, err := os.Stat("/dev/shm"); err == nil && st.IsDir() {
			if f, err := os.CreateTemp("/dev/shm", "probe"); err == nil {
				f.Close()
				os.Remove(f.Name())
				base = "/dev/shm"
			}
		}
		if ents, err := os.ReadDir(base); err == nil {
			for _, e := range ents {
				var pid int
				if n, _ := fmt.Sscanf(e.Name(), "c18root-%d-", &pid); n == 1 {
					if _, err := os.Stat(fmt.Sprintf("/proc/%d", pid)); err != nil {
						os.RemoveAll(filepath.Join(base, e.Name()))
					}
				}
			}
		}
		d, err := os.MkdirTemp(base, fmt.Sprintf("c18root-%d-", os.Getpid()))
		if err != nil {
			panic(err)
		}
		c18Root = d
	})
	return c18Root
}

func c18Cleanup() {
	if c18Root != "" {
		os.RemoveAll(c18Root)
	}
}

func imin(a, b int) int {
	if a < b {
		return a
	}
	return b
}

type c18Obs struct {
	dir      string
	connErr  error
	dir2     string
	connErr2 error
}

// c18Body is what runs under the scheduler: the real handleConn (which starts the real writer).
func c18Body(c c18Case, obs *c18Obs) func() {
	return func() {
		dir, err := os.MkdirTemp(fastTmp(), "c18-")
		if err != nil {
			panic(err)
		}
		obs.dir = dir
		frameLogIntervalFirstMin, frameLogInterval = frameLogIntervalFirstMin0, frameLogInterval0
		data := c18HeaderN(c.size())
		for i := 1; i <= c.Frames; i++ {
			data = append(data, c18FrameN(i, c.size())...)
		}
		data = append(data, c18FrameN(9999, c.size())[:c.Tail]...)
		conf := &Config{DeviceID: 77, DeviceName: "c18-device", OutputDir: dir}
		obs.connErr = handleConn(&c18Conn{data: data, cut: c.Cut}, conf, false)
		if c.Second > 0 && obs.connErr == io.EOF {
			// the camera reconnects to the same process (runMain loops over handleConn); the output goes to a
			// second directory so that the two connections' files can be told apart
			dir2, err := os.MkdirTemp(fastTmp(), "c18b-")
			if err != nil {
				panic(err)
			}
			obs.dir2 = dir2
			d2 := c18HeaderN(c.Second)
			for i := 1; i <= c.Frames; i++ {
				d2 = append(d2, c18FrameN(100+i, c.Second)...)
			}
			vsched.Advance(2 * time.Second) // file names have one-second resolution
			obs.connErr2 = handleConn(&c18Conn{data: d2}, &Config{DeviceID: 77, DeviceName: "c18-device", OutputDir: dir2}, false)
		}
	}
}

func c18Check(c c18Case, e *vsched.Exec, obs *c18Obs) (string, string) {
	defer os.RemoveAll(obs.dir)
	if obs.dir2 != "" {
		defer os.RemoveAll(obs.dir2) // also on the early returns below
	}
	if e.Deadlock != "" {
		return "C18:deadlock", "no thread can run: " + e.Deadlock
	}
	if e.Livelock {
		return "C18:livelock", "execution did not finish within the horizon"
	}
	if len(e.Panics) > 0 {
		return "C18:panic", strings.Join(e.Panics, "; ")
	}
	for _, m := range e.Races {
		return "C18:race:frame-buffer", m
	}
	want := io.EOF
	if c.Tail > 0 {
		want = io.ErrUnexpectedEOF
	}
	if obs.connErr != want {
		return "C18:connection-end", fmt.Sprintf("handleConn returned %v, expected %v", obs.connErr, want)
	}
	files, _ := filepath.Glob(filepath.Join(obs.dir, "*.cptr"))
	sort.Strings(files)
	if len(files) == 0 {
		return "C18:no-file", "no .cptr file was written"
	}
	var all [][]byte
	for _, f := range files {
		fr, err := parseCPTR(f)
		if err != nil {
			return "C18:malformed-file", fmt.Sprintf("%s: %v", filepath.Base(f), err)
		}
		all = append(all, fr...)
	}
	if len(all) != c.Frames {
		return "C18:frame-count", fmt.Sprintf("%d frames stored in %d files, %d complete frames were received", len(all), len(files), c.Frames)
	}
	for i, fr := range all {
		if !bytes.Equal(fr, c18FrameN(i+1, c.size())) {
			return "C18:frame-content-or-order", fmt.Sprintf("stored frame %d is % x, received % x", i+1, c18Short(fr), c18Short(c18FrameN(i+1, c.size())))
		}
	}
	if c.Second > 0 {
		defer os.RemoveAll(obs.dir2)
		if obs.connErr2 != io.EOF {
			return "C18:connection-end:second-connection", fmt.Sprintf("second connection: handleConn returned %v", obs.connErr2)
		}
		files2, _ := filepath.Glob(filepath.Join(obs.dir2, "*.cptr"))
		sort.Strings(files2)
		var all2 [][]byte
		for _, f := range files2 {
			fr, err := parseCPTR(f)
			if err != nil {
				return "C18:malformed-file:second-connection", fmt.Sprintf("second connection (frame size %d after a connection with frame size %d): %s: %v", c.Second, c.size(), filepath.Base(f), err)
			}
			all2 = append(all2, fr...)
		}
		if len(all2) != c.Frames {
			return "C18:frame-count:second-connection", fmt.Sprintf("second connection: %d frames stored, %d received", len(all2), c.Frames)
		}
		for i, fr := range all2 {
			if !bytes.Equal(fr, c18FrameN(101+i, c.Second)) {
				return "C18:frame-content-or-order:second-connection", fmt.Sprintf("second connection: stored frame %d is % x, received % x", i+1, fr, c18FrameN(101+i, c.Second))
			}
		}
	}
	return "", ""
}

func c18Short(b []byte) []byte {
	if len(b) > 24 {
		return b[:24]
	}
	return b
}

func c18Replay(cj []byte) []ev.Violation {
	var c c18Case
	if err := json.Unmarshal(cj, &c); err != nil {
		panic(err)
	}
	vsched.ClearParams()
	vsched.SetParam("inFlight", c.InFlight)
	obs := &c18Obs{}
	e := vsched.Run(c.Choices, vsched.Options{Horizon: 200000, EnvBudget: c.Timers, KeepLog: true}, c18Body(c, obs))
	sig, msg := c18Check(c, e, obs)
	if sig == "" {
		return nil
	}
	return []ev.Violation{{Sig: sig, Msg: msg + "\nschedule:\n  " + strings.Join(e.Log, "\n  "), Case: c}}
}

func TestVerifC18(t *testing.T) {
	log.SetOutput(io.Discard)
	runtime.GOMAXPROCS(1) // the cooperative scheduler runs one goroutine at a time: hand-offs stay on one P
	if p := os.Getenv("VERIF_REPLAY"); p != "" {
		_, cj, err := ev.LoadReplay(p)
		if err != nil {
			fmt.Fprintln(os.Stderr, err)
			os.Exit(2)
		}
		code := ev.ReportReplay("C18", p, cj, c18Replay(cj))
		c18Cleanup()
		os.Exit(code)
	}
	r := ev.NewRun("C18", "overlay cmd/thermal-writer TestVerifC18")
	// re-runs happen in a fresh process: a change under test may keep state in a package-level variable
	// (a buffer pool kept across connections, say), which outlives one execution inside this process
	r.Rerun = ev.FreshProcessRerun("C18", "overlay cmd/thermal-writer TestVerifC18", "TestVerifC18")
	shard, nshards, child := ev.ShardInfo()
	if !child && r.Thorough() {
		exit, evs := ev.RunShards(14, "TestVerifC18")
		os.Setenv("VERIF_MERGE_EVIDENCE", strings.Join(evs, ","))
		c18Describe(r, ev.MinStageInt(evs, "completed_deviation_bound"), 4)
		if code := r.Finish(); code > exit {
			exit = code
		}
		c18Cleanup()
		if exit != 0 {
			os.Exit(exit)
		}
		return
	}
	w := r.Serial()
	type scen struct {
		c     c18Case
		bound int // 0 = the pass's bound
	}
	bounds := []int{2}
	if r.Thorough() {
		bounds = []int{3, 4} // bound 3 completes; bound 4 runs under the time cap and is reported per scenario
	}
	var scens []scen
	// reconnects within one process, with other frame sizes (all frame sizes are in the quantifier)
	scens = append(scens, scen{c18Case{InFlight: 2, Frames: 2, Second: 12, Timers: 0}, 1}, scen{c18Case{InFlight: 2, Frames: 3, Second: 8, Timers: 0}, 1}, scen{c18Case{InFlight: 1, Frames: 2, Second: 20, Timers: 1}, 0})
	for _, n := range []int{1, 2, 3} {
		maxF := 2*n + 2
		if !r.Thorough() && n == 3 {
			maxF = 5
		}
		for fr := 0; fr <= maxF; fr++ {
			if !r.Thorough() && fr > 0 && fr < maxF && fr != n+1 {
				continue
			}
			scens = append(scens, scen{c18Case{InFlight: n, Frames: fr, Timers: 1}, 0})
		}
		scens = append(scens, scen{c18Case{InFlight: n, Frames: n + 1, Tail: 3, Timers: 1}, 0})
		scens = append(scens, scen{c18Case{InFlight: n, Frames: n + 1, Cut: len(c18Header()) + c18FrameSize + 3, Timers: 1}, 0})
	}
	scens = append(scens, scen{c18Case{InFlight: 256, Frames: 258, Timers: 0}, 1})
	// all read segmentations at one cut: a read never crosses offset k, for every k of the stream (pool 2, 3 frames)
	for k := 1; k < len(c18Header())+3*c18FrameSize; k++ {
		if !r.Thorough() && k%3 != 0 && k < len(c18Header())-2 {
			continue // quick: every third offset inside the header, every offset from its last bytes on
		}
		scens = append(scens, scen{c18Case{InFlight: 2, Frames: 3, Cut: k, Timers: 0}, 1})
	}
	// other frame sizes (all frame sizes are in the quantifier): 1, 7, 9 bytes, one larger than the
	// (scaled) 64 KiB read buffer, with a cut inside a frame and a trailing partial frame
	for _, sz := range []int{1, 7, 9, 70000} {
		scens = append(scens, scen{c18Case{InFlight: 2, Frames: 3, Size: sz, Timers: 0}, 1})
		scens = append(scens, scen{c18Case{InFlight: 1, Frames: 2, Size: sz, Cut: len(c18HeaderN(sz)) + sz + sz/2, Timers: 1}, 1})
		if sz > 1 {
			scens = append(scens, scen{c18Case{InFlight: 2, Frames: 2, Size: sz, Tail: sz / 2, Timers: 0}, 1})
		}
	}
	r.SetDeadline(map[bool]time.Duration{false: 20 * time.Minute, true: 35 * time.Minute}[r.Thorough()])
	per := map[string]interface{}{}
	completed := 0
	firstScenario := true
	var nondeterministic []string
	for pi, passBound := range bounds {
		allComplete := true
		for _, sc := range scens {
			bound := passBound
			if sc.bound != 0 {
				if pi > 0 {
					continue // fixed-bound scenarios run once
				}
				bound = sc.bound
			}
			c := sc.c
			c.Bound = bound
			vsched.ClearParams()
			vsched.SetParam("inFlight", c.InFlight)
			obs := &c18Obs{}
			// determinism proof: the default schedule replayed twice gives the same choice sequence
			e1 := vsched.Run(nil, vsched.Options{Horizon: 200000, EnvBudget: c.Timers}, c18Body(c, obs))
			os.RemoveAll(obs.dir)
			os.RemoveAll(obs.dir2)
			e2 := vsched.Run(e1.Choices(), vsched.Options{Horizon: 200000, EnvBudget: c.Timers}, c18Body(c, obs))
			os.RemoveAll(obs.dir)
			os.RemoveAll(obs.dir2)
			if fmt.Sprint(e1.Choices()) != fmt.Sprint(e2.Choices()) {
				// The same schedule gave two different executions: something outlives an execution. If the code
				// under test is the cause (state in a package-level variable), the first execution of this
				// process - which did start from a fresh daemon - shows what that state does; it is judged
				// alone (and re-run in fresh processes). Otherwise this is a harness error.
				obs1 := &c18Obs{}
				cc := c
				cc.Choices = e1.Choices()
				if firstScenario {
					ex := vsched.Run(cc.Choices, vsched.Options{Horizon: 200000, EnvBudget: c.Timers}, c18Body(c, obs1))
					if sig, msg := c18Check(c, ex, obs1); sig != "" {
						w.Evaluations++
						w.Nontrivial++
						w.Violate(sig, msg+" (and the same schedule does not repeat inside one process: state is kept between connections)", cc, len(cc.Choices))
					}
				}
				nondeterministic = append(nondeterministic, fmt.Sprintf("%+v", c))
				continue
			}
			firstScenario = false
			x := &vsched.Explorer{Bound: bound, Opt: vsched.Options{Horizon: 200000, EnvBudget: c.Timers}, Stop: r.Expired, Shard: shard, NShards: nshards}
			x.Body = func() { c18Body(c, obs)() }
			x.OnDiscard = func(e *vsched.Exec) { os.RemoveAll(obs.dir); os.RemoveAll(obs.dir2) }
			x.Check = func(e *vsched.Exec) {
				w.Evaluations++
				w.Nontrivial++
				w.States += int64(len(e.Choices()))
				w.Transitions += int64(len(e.Choices()))
				sig, msg := c18Check(c, e, obs)
				w.Outcome(ev.Hash(c.InFlight, c.Frames, sig, len(e.Choices())))
				if sig != "" {
					cc := c
					cc.Choices = e.Choices()
					w.Violate(sig, fmt.Sprintf("pool of %d buffers, %d frames (+%d tail bytes): %s", c.InFlight, c.Frames, c.Tail, msg), cc, len(cc.Choices))
				}
			}
			x.Explore()
			per[fmt.Sprintf("bound=%d inflight=%d frames=%d size=%d tail=%d cut=%d second=%d", bound, c.InFlight, c.Frames, c.size(), c.Tail, c.Cut, c.Second)] = map[string]interface{}{"executions": x.Executions, "max_points": x.MaxPoints, "complete": !x.Capped}
			if x.Capped {
				allComplete = false
			}
			if w.WantSample() {
				w.Sample(map[string]interface{}{"scenario": c, "executions": x.Executions, "max_scheduling_points": x.MaxPoints})
			}
		}
		if allComplete {
			completed = passBound
		} else if pi == 0 {
			r.MarkCapped()
		}
	}
	if len(nondeterministic) > 0 {
		// no verdict is possible for these scenarios; without a reproducible violation the run is a harness error
		fmt.Fprintf(os.Stderr, "HARNESS-ERROR: schedule replay is not deterministic for %v\n", nondeterministic)
		r.Extra["scenarios_without_deterministic_replay"] = nondeterministic
		r.MarkCapped()
		hadNondeterminism = true
	}
	r.Extra["completed_deviation_bound"] = completed
	r.Extra["shard"] = fmt.Sprintf("%d/%d", shard, nshards)
	r.Extra["scenarios"] = per
	c18Describe(r, bounds[0], bounds[len(bounds)-1])
	code := r.Finish()
	c18Cleanup()
	if code == 0 && hadNondeterminism {
		code = 2
	}
	if code != 0 {
		os.Exit(code)
	}
}

var hadNondeterminism bool

func c18Describe(r *ev.Run, completeBound, maxBound int) {
	r.Bounds["deviation_bound_complete"] = completeBound
	r.Bounds["deviation_bound_attempted"] = maxBound
	r.Rule = "the real handleConn of thermal-writer (which starts the real writer goroutine) on an in-memory connection, under the cooperative scheduler: instrumented copies of main.go/thermalraw.go/bufferedfile.go (channel operations, goroutine start, select, one-minute rotation timer, clock are scheduling points; the Go select's random pick and the timer are explored choices); buffer pool size inFlight scaled to 1,2,3 with 0..2N+2 frames, a trailing partial frame, a short read, inFlight=256 with 258 frames at bound 1, a read boundary at every offset of a 3-frame stream (quick: every third offset inside the header) at bound 1, frame sizes 1, 7, 9 and 70000 bytes (larger than the scaled read buffer) at bound 1, and the camera reconnecting within the same process with another frame size; every interleaving with at most the stated number of deviations (preemptions + timer fires; thorough: sharded over 14 processes, the higher bound under a time cap, reported per scenario). Oracle: all *.cptr parse (magic, version, all nine header fields incl. creation timestamp and compression 0, only length-prefixed frame sections, no trailing bytes), concatenated payloads = frames sent, no deadlock/panic, and no pair of frame-buffer accesses (io.ReadFull fill vs writeFrame) unordered by channel happens-before. Non-trivial = every execution (the depth-first enumeration never repeats a choice sequence, so executions of one scenario are pairwise distinct schedules)."
	r.Assumptions = []string{"sequentially consistent interleavings at synchronisation granularity + happens-before race check on the frame buffers (a race-free Go program is SC)", "bufio buffer scaled from 32 MiB to 64 KiB, inFlight scaled through a run-time parameter (both by the syntactic instrumenter)"}
}
