package main

import (
	"encoding/binary"
	"encoding/json"
	"fmt"
	"io"
	"os"
	"testing"

	"github.com/TheCacophonyProject/go-cptv/cptvframe"
	"github.com/TheCacophonyProject/lepton3"

	"verifkit/ev"
)

// C13, Boson stage: the little-endian parser of cmd/thermal-recorder (package main).

type c13bCase struct {
	Stage string      `json:"stage"` // "boson-parser" | "boson-stream"
	X     int         `json:"x"`
	Y     int         `json:"y"`
	Edge  int         `json:"edge"`
	Pix   [][]uint16  `json:"pix,omitempty"`
	S     e2eSettings `json:"settings,omitempty"`
	Items string      `json:"items,omitempty"` // F frame, B bad frame
}

func runC13bParser(c c13bCase) (string, string) {
	return guard2("C13", func() (string, string) { return runC13bParser0(c) })
}

func runC13bParser0(c c13bCase) (string, string) {
	raw := make([]byte, c.X*c.Y*2)
	i := 0
	for y := 0; y < c.Y; y++ {
		for x := 0; x < c.X; x++ {
			binary.LittleEndian.PutUint16(raw[i:], c.Pix[y][x])
			i += 2
		}
	}
	out := cptvframe.NewFrame(vcam{c.X, c.Y, 9})
	err := convertRawBosonFrame(raw, out, c.Edge)
	wantBad := false
	for y := 0; y < c.Y; y++ {
		for x := 0; x < c.X; x++ {
			onEdge := y < c.Edge || x < c.Edge || y >= c.Y-c.Edge || x >= c.X-c.Edge
			if !onEdge && c.Pix[y][x] == 0 {
				wantBad = true
			}
		}
	}
	_, isBad := err.(*lepton3.BadFrameErr)
	if wantBad != isBad {
		return "C13:parser:boson:bad-frame-iff-zero-inside-border", fmt.Sprintf("%dx%d edge %d pixels %v: reported as bad frame=%v (err=%v), expected %v", c.X, c.Y, c.Edge, c.Pix, isBad, err, wantBad)
	}
	if wantBad {
		return "", ""
	}
	if err != nil {
		return "C13:parser:boson:valid-frame-rejected", fmt.Sprintf("valid frame rejected: %v", err)
	}
	for y := range c.Pix {
		for x := range c.Pix[y] {
			if out.Pix[y][x] != c.Pix[y][x] {
				return "C13:parser:boson:pixel", fmt.Sprintf("pixel (%d,%d) decoded as %d, sent %d (little-endian)", y, x, out.Pix[y][x], c.Pix[y][x])
			}
		}
	}
	// the Boson sends no telemetry: the parser must make the frame look FFC-free or detection never triggers
	if out.Status.TimeOn-out.Status.LastFFCTime < 10e9 {
		return "C13:parser:boson:ffc-telemetry", fmt.Sprintf("decoded telemetry %+v makes every Boson frame look FFC-affected", out.Status)
	}
	return "", ""
}

func runC13bStream(c c13bCase) (string, string) {
	return guard2("C13", func() (string, string) { return runC13bStream0(c) })
}

func runC13bStream0(c c13bCase) (string, string) {
	s := c.S
	var items []e2eItem
	n := 0
	level := uint16(2000)
	for _, ch := range c.Items {
		n++
		if level == 2000 {
			level = 3000
		} else {
			level = 2000
		}
		f := s.sceneFrame(n, level)
		if ch == 'B' {
			f.Pix[1][1] = 0
			f.Pix[0][0] = uint16(900 + n) // rejected frames carry ids 900+
		}
		items = append(items, e2eItem{Frame: f, Bad: ch == 'B'})
	}
	res, _ := s.runHandleConn(s.stream(items), nil, false)
	defer os.RemoveAll(res.dir)
	if res.err != io.EOF {
		return "C13:stream:connection-end", fmt.Sprintf("items %s: handleConn returned %v", c.Items, res.err)
	}
	for _, f := range res.files {
		d, err := decodeAll(f)
		if err != nil {
			return "C13:stream:file-does-not-decode", fmt.Sprintf("items %s: %s: %v", c.Items, f, err)
		}
		for _, fr := range d.frames[1:] {
			if fr.Pix[0][0] >= 900 {
				return "C13:stream:bad-frame-recorded", fmt.Sprintf("items %s: rejected frame %d was written to %s", c.Items, fr.Pix[0][0]-900, f)
			}
		}
	}
	// reference without the bad frames in the parser's hands: Process is called with them, the reference
	// parser rejects them the same way; file boundaries must match
	if sig, msg := s.compareWithReference(res, s.reference(items)); sig != "" {
		return "C13:stream:" + sig, fmt.Sprintf("items %s: %s", c.Items, msg)
	}
	return "", ""
}

func c13bReplay(cj []byte) []ev.Violation {
	var c c13bCase
	if err := json.Unmarshal(cj, &c); err != nil {
		panic(err)
	}
	var sig, msg string
	if c.Stage == "boson-stream" {
		sig, msg = runC13bStream(c)
	} else {
		sig, msg = runC13bParser(c)
	}
	if sig != "" {
		return []ev.Violation{{Sig: sig, Msg: msg, Case: c}}
	}
	return nil
}

func TestVerifC13(t *testing.T) {
	quiet()
	if replayOr("C13", c13bReplay) {
		return
	}
	r := ev.NewRun("C13", "overlay cmd/thermal-recorder TestVerifC13 (Boson stage)")
	r.Rerun = c13bReplay
	w := r.Serial()
	mk := func(x, y int, v uint16) [][]uint16 {
		p := make([][]uint16, y)
		for i := range p {
			p[i] = make([]uint16, x)
			for j := range p[i] {
				p[i][j] = v
			}
		}
		return p
	}
	try := func(c c13bCase) {
		w.Evaluations++
		w.States++
		w.Transitions++
		w.Nontrivial++
		sig, msg := runC13bParser(c)
		w.Outcome(ev.Hash(c.X, c.Y, c.Edge, sig))
		if sig != "" {
			w.Violate(sig, msg, c, c.X*c.Y)
		}
	}
	vals := []uint16{1, 0x00FF, 0x0100, 0x7FFF, 0x8000, 0xFFFF}
	for _, res := range [][2]int{{4, 3}, {5, 4}, {6, 6}, {7, 5}} {
		for edge := 0; edge <= 2; edge++ {
			if 2*edge >= res[0] || 2*edge >= res[1] {
				continue
			}
			n := res[0] * res[1]
			for a := 0; a < n; a++ {
				// the surrounding pixels take values whose high or low byte is zero as well (a byte-wise
				// scan for 00 00 must not be confused by neighbouring bytes)
				for _, fillv := range []uint16{3000, 0x00FF, 0x0100, 1} {
					c := c13bCase{Stage: "boson-parser", X: res[0], Y: res[1], Edge: edge, Pix: mk(res[0], res[1], fillv)}
					c.Pix[a/res[0]][a%res[0]] = 0
					try(c)
				}
				c := c13bCase{Stage: "boson-parser", X: res[0], Y: res[1], Edge: edge, Pix: mk(res[0], res[1], 3000)}
				c.Pix[a/res[0]][a%res[0]] = 0
				for b := a + 1; b < n; b++ {
					c2 := c13bCase{Stage: "boson-parser", X: res[0], Y: res[1], Edge: edge, Pix: mk(res[0], res[1], 3000)}
					c2.Pix[a/res[0]][a%res[0]] = 0
					c2.Pix[b/res[0]][b%res[0]] = 0
					try(c2)
				}
				for _, v := range vals {
					c3 := c13bCase{Stage: "boson-parser", X: res[0], Y: res[1], Edge: edge, Pix: mk(res[0], res[1], 0x1234)}
					c3.Pix[a/res[0]][a%res[0]] = v
					try(c3)
				}
			}
		}
	}
	if w.WantSample() {
		w.Sample(map[string]interface{}{"stage": "boson-parser", "x": 4, "y": 3, "edge": 1, "zero_at": "every position, every pair"})
	}
	// a few streams with bad frames through the real handleConn with the Boson parser
	s := e2eSettings{Model: "boson", ResX: 5, ResY: 4, FPS: 1, Serial: 5, Firmware: "1.0.0", Min: 1, Max: 2, Preview: 1, Trigger: 1, Constant: true, DeviceName: "c13", DeviceID: 9, BucketSecs: 600}
	for _, items := range []string{"FFFBFF", "FBFFFF", "FFFFBF", "BFFFFF", "FFBBFF", "FFFFFB"} {
		c := c13bCase{Stage: "boson-stream", S: s, Items: items}
		sig, msg := runC13bStream(c)
		w.Evaluations++
		w.Transitions += int64(len(items))
		w.Nontrivial++
		if sig != "" {
			w.Violate(sig, msg, c, len(items))
		}
	}
	r.Rule = "Boson little-endian parser (convertRawBosonFrame): every single zero-pixel position (with surrounding values 3000, 0x00FF, 0x0100, 1) and every double zero-pixel position x edge-pixels 0..2 x resolutions 4x3/5x4/6x6/7x5 (border/interior boundary on every side, non-square), every pixel position x six byte-order-revealing values; six streams with bad frames through the real handleConn. Non-trivial = every case."
	finish(t, r)
}
