package main

import (
	"encoding/json"
	"fmt"
	"io"
	"os"
	"syscall"
	"testing"

	"verifkit/ev"
)

// C04 (overlay stage): "no recording ever starts below min-disk-space" - binds the abstract
// disk-check outcome of the processor-level exploration to the real check (checkDiskSpace /
// CPTVFileRecorder.CheckCanRecord / the min-disk-space-mb setting, end to end through handleConn).
// The environment answer (free space) cannot be injected without a hook, so the harness measures it
// with the same system call before and after each case and places min-disk-space at every position
// relative to it (0, 1, free-1, free, free+1, 2*free, 2^40): a case whose measured free space moved
// while it ran is repeated (up to 5 times) and otherwise counted as skipped, never as a violation.

type c04dCase struct {
	Stage string `json:"stage"` // "direct" | "e2e" | "missing-dir"
	Rel   string `json:"min_disk_relative_to_free"`
}

func freeMB(dir string) uint64 {
	var fs syscall.Statfs_t
	if err := syscall.Statfs(dir, &fs); err != nil {
		panic(err)
	}
	return fs.Bavail * uint64(fs.Bsize) / 1024 / 1024
}

func c04Min(rel string, free uint64) uint64 {
	switch rel {
	case "0":
		return 0
	case "1":
		return 1
	case "free-1":
		return free - 1
	case "free":
		return free
	case "free+1":
		return free + 1
	case "2*free":
		return 2 * free
	case "2^44": // 2^44 MB = 2^64 bytes: where a comparison in bytes would wrap
		return 1 << 44
	case "2^44+1":
		return 1<<44 + 1
	case "2^50":
		return 1 << 50
	case "2^62":
		return 1 << 62
	case "2^63":
		return 1 << 63
	case "2^64-1":
		return ^uint64(0)
	}
	return 1 << 40
}

var c04Skipped int

// runC04d returns ("", "", false) when the case could not be evaluated because free space kept moving.
func runC04d(c c04dCase) (sig, msg string, evaluated bool) {
	return guard3b("C04", func() (string, string, bool) { return runC04d0(c) })
}

func guard3b(prop string, f func() (string, string, bool)) (sig, msg string, ok bool) {
	defer func() {
		if p := recover(); p != nil {
			sig, msg, ok = prop+":panic-in-code-under-test", crashMsg(p), true
		}
	}()
	return f()
}

// A wrong answer at a boundary is believed only when three consecutive stable evaluations give it:
// another process moving the free space by a megabyte and back inside one evaluation cannot do that.
func runC04d0(c c04dCase) (string, string, bool) {
	if c.Stage == "missing-dir" {
		return runC04d1(c)
	}
	bad, lastSig, lastMsg := 0, "", ""
	for i := 0; i < 6; i++ {
		sig, msg, ok := runC04d1(c)
		if !ok {
			return "", "", false
		}
		if sig == "" {
			return "", "", true
		}
		if sig == lastSig {
			bad++
		} else {
			bad, lastSig, lastMsg = 1, sig, msg
		}
		if bad == 3 {
			return lastSig, lastMsg, true
		}
	}
	return "", "", false
}

func runC04d1(c c04dCase) (string, string, bool) {
	if c.Stage == "missing-dir" {
		ok, err := checkDiskSpace(1, "/nonexistent-verif-c04")
		if err == nil || ok {
			return "C04:disk-check:unreadable-directory-passes", fmt.Sprintf("checkDiskSpace on a directory that does not exist returned (%v, %v)", ok, err), true
		}
		rec := &CPTVFileRecorder{outputDir: "/nonexistent-verif-c04", minDiskSpace: 1}
		if rec.CheckCanRecord() == nil {
			return "C04:disk-check:unreadable-directory-passes", "CheckCanRecord passes although the free space of the output directory cannot be read", true
		}
		return "", "", true
	}
	for attempt := 0; attempt < 5; attempt++ {
		if c.Stage == "direct" {
			dir, err := os.MkdirTemp("", "c04d-")
			if err != nil {
				panic(err)
			}
			before := freeMB(dir)
			min := c04Min(c.Rel, before)
			ok, err := checkDiskSpace(min, dir)
			rec := &CPTVFileRecorder{outputDir: dir, minDiskSpace: min}
			can := rec.CheckCanRecord()
			after := freeMB(dir)
			os.RemoveAll(dir)
			if before != after {
				continue
			}
			want := min <= before
			if err != nil || ok != want {
				return "C04:disk-check:wrong-at-boundary", fmt.Sprintf("free space %d MB, min-disk-space %d MB (%s): checkDiskSpace returned (%v, %v), expected %v", before, min, c.Rel, ok, err, want), true
			}
			if (can == nil) != want {
				return "C04:disk-check:wrong-at-boundary", fmt.Sprintf("free space %d MB, min-disk-space %d MB (%s): CheckCanRecord returned %v, expected pass=%v", before, min, c.Rel, can, want), true
			}
			return "", "", true
		}
		// end to end: the setting in config.toml decides whether the motion burst is recorded
		probe, err := os.MkdirTemp("", "c04p-")
		if err != nil {
			panic(err)
		}
		before := freeMB(probe)
		s := e2eSettings{Model: "boson", ResX: 5, ResY: 4, FPS: 2, Serial: 1, Firmware: "1.1.1", Min: 1, Max: 3, Preview: 1, Trigger: 1, BucketSecs: 4, DeviceName: "c04", DeviceID: 4}
		s.MinDiskMB = c04Min(c.Rel, before)
		cc := c11Case{S: &s, N: 20, Burst: [2]int{6, 12}}
		items := cc.e2eItems()
		res, _ := s.runHandleConn(s.stream(items), nil, false)
		after := freeMB(probe)
		os.RemoveAll(probe)
		files := len(res.files)
		var cmpSig, cmpMsg string
		if s.MinDiskMB <= before && s.MinDiskMB >= 1 {
			cmpSig, cmpMsg = s.compareWithReference(res, s.reference(items))
		}
		os.RemoveAll(res.dir)
		if before != after {
			continue
		}
		if res.err != io.EOF {
			return "C04:disk-check:e2e:connection-end", fmt.Sprintf("min-disk-space %s: handleConn returned %v", c.Rel, res.err), true
		}
		if s.MinDiskMB > before {
			if files != 0 {
				return "C04:disk-check:e2e:recorded-below-min-disk-space", fmt.Sprintf("free space %d MB, min-disk-space-mb = %d (%s): %d recordings were started", before, s.MinDiskMB, c.Rel, files), true
			}
			return "", "", true
		}
		if s.MinDiskMB == 0 {
			// 0 is replaced by the default of the configuration library; the check passes either way on this disk
			if files == 0 {
				return "C04:disk-check:e2e:not-recorded-with-enough-space", fmt.Sprintf("free space %d MB, min-disk-space-mb unset: nothing recorded", before), true
			}
			return "", "", true
		}
		if cmpSig != "" {
			return "C04:disk-check:e2e:" + cmpSig, fmt.Sprintf("free space %d MB, min-disk-space-mb = %d (%s): %s", before, s.MinDiskMB, c.Rel, cmpMsg), true
		}
		return "", "", true
	}
	return "", "", false
}

func c04dReplay(cj []byte) []ev.Violation {
	var c c04dCase
	if err := json.Unmarshal(cj, &c); err != nil {
		panic(err)
	}
	if sig, msg, _ := runC04d(c); sig != "" {
		return []ev.Violation{{Sig: sig, Msg: msg, Case: c}}
	}
	return nil
}

func TestVerifC04(t *testing.T) {
	quiet()
	if replayOr("C04", c04dReplay) {
		return
	}
	r := ev.NewRun("C04", "overlay cmd/thermal-recorder TestVerifC04 (disk-check stage)")
	r.Rerun = c04dReplay
	w := r.Serial()
	skipped := 0
	run := func(c c04dCase) {
		sig, msg, ok := runC04d(c)
		if !ok {
			skipped++
			return
		}
		w.Evaluations++
		w.Nontrivial++
		w.States++
		w.Transitions++
		w.Outcome(ev.Hash(c.Stage, c.Rel, sig))
		if sig != "" {
			w.Violate(sig, msg, c, 1)
		}
		if w.WantSample() {
			w.Sample(c)
		}
	}
	run(c04dCase{Stage: "missing-dir"})
	for _, st := range []string{"direct", "e2e"} {
		rels := []string{"0", "1", "free-1", "free", "free+1", "2*free", "2^40", "2^44", "2^44+1", "2^50", "2^62"}
		if st == "direct" {
			rels = append(rels, "2^63", "2^64-1") // beyond what a TOML integer can hold
		}
		for _, rel := range rels {
			run(c04dCase{Stage: st, Rel: rel})
		}
	}
	r.Bounds["min_disk_space_positions"] = 13
	r.Extra["cases_skipped_because_free_space_moved"] = skipped
	r.Rule = "the real free-disk-space check: checkDiskSpace and CPTVFileRecorder.CheckCanRecord called directly, and the min-disk-space-mb setting end to end (generated config.toml -> ParseConfig -> handleConn -> files), with min-disk-space at 0, 1, free-1, free, free+1, 2*free, 2^40, 2^44, 2^44+1, 2^50, 2^62 (and 2^63, 2^64-1 for the direct calls) MB relative to the free space measured with the same system call before and after the case (a case during which the measured value moved is repeated up to 5 times, then skipped - never reported; a wrong answer is reported only when three consecutive stable evaluations give it); plus a directory whose free space cannot be read. Expected: passes / records exactly when min-disk-space <= free. Non-trivial = every evaluated case."
	finish(t, r)
}
