package main

import (
	"encoding/json"
	"fmt"
	"io"
	"net"
	"os"
	"path/filepath"
	"reflect"
	"runtime"
	"sort"
	"strings"
	"testing"
	"time"

	"github.com/TheCacophonyProject/go-cptv/cptvframe"
	"github.com/godbus/dbus"

	"verifkit/ev"
	"verifkit/vos"
	"verifkit/vsched"
	"verifkit/vtime"
)

// C16 — snapshots taken concurrently with processing are whole frames; no data races.
//
// Engine B: the real handleConn (frame loop) and the real request paths
// (newSnapshot = TakeSnapshot's body, newSnapshotRecording = TakeTestRecording's body,
// service.CameraInfo) run as threads of the controlled scheduler on instrumented copies
// of frameloop.go, motionprocessor.go, main.go, snapshot.go, service.go, boson.go and
// go-cptv's frame.go (see bin/overlay.sh).

type c16Case struct {
	Cap       int      `json:"ring_capacity"`
	Frames    int      `json:"frames"`
	Reconnect string   `json:"reconnect,omitempty"` // "", "ok", "truncated"
	Reqs      []string `json:"requests"`            // one thread each: snap, snap2, testrec, info
	Bound     int      `json:"bound,omitempty"`
	Choices   []int    `json:"choices,omitempty"`
}

type c16Conn struct {
	chunks [][]byte
	next   int
	served int // frames handed to the reader so far
	hdr    int // chunks that are header
}

func (c *c16Conn) Read(p []byte) (int, error) {
	if c.next >= len(c.chunks) {
		return 0, io.EOF
	}
	ch := c.chunks[c.next]
	n := copy(p, ch)
	if n < len(ch) {
		c.chunks[c.next] = ch[n:]
		return n, nil
	}
	if c.next >= c.hdr {
		c.served++
	}
	c.next++
	return n, nil
}
func (c *c16Conn) Write(p []byte) (int, error)        { return len(p), nil }
func (c *c16Conn) Close() error                       { return nil }
func (c *c16Conn) LocalAddr() net.Addr                { return &net.UnixAddr{Name: "verif", Net: "unix"} }
func (c *c16Conn) RemoteAddr() net.Addr               { return &net.UnixAddr{Name: "verif", Net: "unix"} }
func (c *c16Conn) SetDeadline(t time.Time) error      { return nil }
func (c *c16Conn) SetReadDeadline(t time.Time) error  { return nil }
func (c *c16Conn) SetWriteDeadline(t time.Time) error { return nil }

type c16Snap struct {
	thread      string
	f           *cptvframe.Frame
	err         error
	conn        int // connection generation at request begin
	doneAtBegin int // frames whose processing had completed on that connection when the request began
	servedAtEnd int
	genAtEnd    int
	atReturn    [][]uint16 // pixel content when the request returned
}

type c16Obs struct {
	snaps     []c16Snap
	connErrs  []error
	gen       int
	conns     []*c16Conn
	infoCalls int
	// test-recording requests that returned without error while one connection was current throughout
	testrecAccepted int
	framesSeen      []uint32
}

type c16Env struct {
	s       e2eSettings
	confDir string
	outDir  string
	conf    *Config
}

func newC16Env(capacity int) *c16Env {
	base, err := os.MkdirTemp("", "c16-")
	if err != nil {
		panic(err)
	}
	e := &c16Env{confDir: filepath.Join(base, "conf"), outDir: filepath.Join(base, "out")}
	os.MkdirAll(e.confDir, 0o755)
	os.MkdirAll(e.outDir, 0o755)
	// temp-thresh (via settings) well above every pixel value: no motion, hence no motion recordings
	e.s = e2eSettings{Model: "boson", ResX: 3, ResY: 3, FPS: 1, Serial: 1, Firmware: "1.0.0", Min: 1, Max: 1, Preview: capacity - 1, Trigger: 1, DeviceName: "c16", DeviceID: 1, BucketSecs: 600}
	e.s.writeConfig(e.confDir, e.outDir)
	conf, err := ParseConfig(e.confDir)
	if err != nil {
		panic(err)
	}
	e.conf = conf
	return e
}

func (e *c16Env) close() { os.RemoveAll(filepath.Dir(e.confDir)) }

func c16Frame(s e2eSettings, k int) *cptvframe.Frame {
	f := cptvframe.NewFrame(s.cam())
	for y := range f.Pix {
		for x := range f.Pix[y] {
			f.Pix[y][x] = uint16(100 + k) // uniform: a mixture of two frames is visible; below temp-thresh 1000: no motion
		}
	}
	return f
}

func (e *c16Env) conn(frames int, first int, truncatedHeader bool) *c16Conn {
	c := &c16Conn{}
	h := e.s.header()
	if truncatedHeader {
		c.chunks = append(c.chunks, h[:len(h)/2])
		c.hdr = 1
		return c
	}
	c.chunks = append(c.chunks, h)
	c.hdr = 1
	for k := 0; k < frames; k++ {
		c.chunks = append(c.chunks, e.s.rawFrame(c16Frame(e.s, first+k)))
	}
	return c
}

func c16Body(c c16Case, env *c16Env, obs *c16Obs) func() {
	return func() {
		// fresh globals, as after a daemon start
		processor, headerInfo = nil, nil
		previousSnapshotID, previousSnapshotTime = 0, time.Time{}
		reflect.ValueOf(&mu).Elem().Set(reflect.Zero(reflect.TypeOf(mu))) // sync.Mutex, or vsync.Mutex in the C16 build
		frameLogIntervalFirstMin, frameLogInterval = frameLogIntervalFirstMin0, frameLogInterval0
		vos.Reset()
		vtime.Reset()
		*obs = c16Obs{}
		obs.conns = []*c16Conn{env.conn(c.Frames, 1, false)}
		switch c.Reconnect {
		case "ok":
			obs.conns = append(obs.conns, env.conn(c.Frames, 51, false))
		case "truncated":
			obs.conns = append(obs.conns, env.conn(0, 0, true))
		}
		vsched.Spawn("frame-loop", func() {
			for i, cn := range obs.conns {
				obs.gen = i
				obs.connErrs = append(obs.connErrs, handleConn(cn, env.conf))
			}
		})
		for i, rq := range c.Reqs {
			name := fmt.Sprintf("%s#%d", rq, i+1)
			switch rq {
			case "snap", "snap2":
				n := 1
				if rq == "snap2" {
					n = 2
				}
				vsched.Spawn(name, func() {
					for k := 0; k < n; k++ {
						cn := obs.conns[obs.gen]
						sn := c16Snap{thread: name, conn: obs.gen, doneAtBegin: cn.served - 1}
						var derr *dbus.Error
						sn.f, derr = (&service{}).TakeSnapshot(-1)
						if derr != nil {
							sn.err = fmt.Errorf("%v", derr.Body)
						}
						sn.servedAtEnd, sn.genAtEnd = obs.conns[obs.gen].served, obs.gen
						if sn.f != nil {
							for _, row := range sn.f.Pix {
								sn.atReturn = append(sn.atReturn, append([]uint16{}, row...))
							}
						}
						obs.snaps = append(obs.snaps, sn)
					}
				})
			case "testrec":
				vsched.Spawn(name, func() {
					genAtBegin := obs.gen
					derr := (&service{}).TakeTestRecording()
					if derr == nil && genAtBegin == obs.gen {
						obs.testrecAccepted++
					}
				})
			case "info":
				vsched.Spawn(name, func() {
					(&service{}).CameraInfo()
					obs.infoCalls++
				})
			}
		}
	}
}

func c16Check(c c16Case, env *c16Env, e *vsched.Exec, obs *c16Obs) (out []ev.Violation) {
	add := func(sig, msg string) { out = append(out, ev.Violation{Sig: sig, Msg: msg}) }
	vos.CloseAll()
	if e.Deadlock != "" {
		add("C16:deadlock", "request stalls the pipeline: "+e.Deadlock)
		return
	}
	if e.Livelock {
		add("C16:livelock", "execution did not finish within the horizon")
		return
	}
	for _, p := range e.Panics {
		th := strings.SplitN(strings.TrimPrefix(p, "thread "), "#", 2)[0]
		th = strings.SplitN(th, ":", 2)[0]
		add("C16:panic:"+th, p)
	}
	var locs []string
	for k := range e.Races {
		locs = append(locs, k)
	}
	sort.Strings(locs)
	for _, k := range locs {
		// k = "<location>:<kind>@<file>:<func>|<kind>@<file>:<func>" - the signature names the two racing sites
		add("C16:race:"+k, e.Races[k])
	}
	if len(e.Panics) > 0 {
		return
	}
	// the pipeline processed every frame of every connection
	for i, err := range obs.connErrs {
		want := io.EOF
		if i == 1 && c.Reconnect == "truncated" {
			want = io.ErrUnexpectedEOF
			if err == io.EOF {
				want = io.EOF
			}
		}
		if err != want {
			add("C16:pipeline-disturbed", fmt.Sprintf("connection %d ended with %v, expected %v", i+1, err, want))
		}
	}
	if len(obs.connErrs) != len(obs.conns) {
		add("C16:pipeline-disturbed", fmt.Sprintf("only %d of %d connections were handled", len(obs.connErrs), len(obs.conns)))
	}
	if c.Reconnect != "truncated" && processor != nil && int(processor.CurrentFrame) != c.Frames {
		add("C16:pipeline-disturbed", fmt.Sprintf("the frame loop processed %d frames of the last connection, %d were sent", processor.CurrentFrame, c.Frames))
	}
	// snapshots are whole and fresh
	for _, sn := range obs.snaps {
		if sn.f == nil {
			// once the first frame of the connection has been read a processor exists, and a request that is
			// not limited to "newer than frame N" must be given an image
			if sn.conn == sn.genAtEnd && sn.doneAtBegin >= 1 {
				add("C16:no-snapshot", fmt.Sprintf("%s got no image (error: %v) although %d frames of the connection had been received", sn.thread, sn.err, sn.doneAtBegin))
			}
			continue
		}
		if fmt.Sprint(sn.atReturn) != fmt.Sprint(sn.f.Pix) {
			add("C16:snapshot-not-an-independent-copy", fmt.Sprintf("%s: the returned frame changed after the request returned (%v -> %v): it shares a buffer with the frame loop", sn.thread, sn.atReturn, sn.f.Pix))
			continue
		}
		v := sn.f.Pix[0][0]
		whole := true
		for y := range sn.f.Pix {
			for x := range sn.f.Pix[y] {
				if sn.f.Pix[y][x] != v {
					whole = false
				}
			}
		}
		if !whole {
			sig := "C16:torn-snapshot"
			if c.Cap == 1 {
				sig = "C16:torn-snapshot:ring-capacity-1"
			}
			add(sig, fmt.Sprintf("%s returned a mixture of frames: %v (ring capacity %d)", sn.thread, sn.f.Pix, c.Cap))
			continue
		}
		if v == 0 {
			// an all-zero frame is the ring of a freshly created processor: fine unless a frame had already
			// been processed on the connection that was current for the whole request
			if sn.conn == sn.genAtEnd && sn.doneAtBegin >= 1 {
				add("C16:stale-snapshot", fmt.Sprintf("%s returned an empty frame although %d frames had been processed", sn.thread, sn.doneAtBegin))
			}
			continue
		}
		k := int(v) - 100
		gen, j := 0, k // generation and index of the returned frame
		if k >= 51 {
			gen, j = 1, k-50
		}
		switch {
		case gen > sn.genAtEnd || j < 1 || j > obs.conns[gen].served:
			add("C16:snapshot-not-a-received-frame", fmt.Sprintf("%s returned value %d which is not a frame received so far", sn.thread, v))
		case gen == sn.conn && sn.doneAtBegin >= 1 && j < sn.doneAtBegin:
			add("C16:stale-snapshot", fmt.Sprintf("%s returned frame %d although frame %d had completed processing when the request was made", sn.thread, j, sn.doneAtBegin))
		case gen < sn.conn && sn.doneAtBegin >= 1:
			add("C16:stale-snapshot", fmt.Sprintf("%s returned frame %d of the previous connection although %d frames of the current one had been processed", sn.thread, j, sn.doneAtBegin))
		}
	}
	// an accepted test-recording request is acted on: the flag is pending, a test recording is open, or its file exists
	if c.Reconnect == "" && obs.testrecAccepted > 0 && processor != nil {
		if !processor.StartSnapshot && !processor.SnapshotRecording && len(listTree(env.outDir)) == 0 {
			add("C16:test-recording-request-lost", "TakeTestRecording returned without error but no test recording was started or is pending")
		}
	}
	// sequential probes after the run (the scheduler is off): "newer than frame N" requests
	if c.Reconnect != "truncated" && processor != nil {
		defer func() {
			if p := recover(); p != nil {
				add("C16:panic:snapshot-request-after-the-run", crashMsg(p))
			}
		}()
		n := int(processor.CurrentFrame)
		if f, derr := (&service{}).TakeSnapshot(n); derr == nil || f != nil {
			add("C16:snapshot-filter", fmt.Sprintf("TakeSnapshot(lastFrame=%d) with %d frames processed returned (%v, %v), expected the 'no new frames yet' error", n, n, f != nil, derr))
		}
		if n >= 1 {
			f, derr := (&service{}).TakeSnapshot(n - 1)
			last := uint16(100 + c.Frames)
			if c.Reconnect == "ok" {
				last = uint16(150 + c.Frames)
			}
			if derr != nil || f == nil || f.Pix[0][0] != last || f.Pix[len(f.Pix)-1][len(f.Pix[0])-1] != last {
				add("C16:snapshot-filter", fmt.Sprintf("TakeSnapshot(lastFrame=%d) with %d frames processed did not return the last frame (error %v)", n-1, n, derr))
			}
		}
	}
	return
}

func c16Replay(cj []byte) []ev.Violation {
	var c c16Case
	if err := json.Unmarshal(cj, &c); err != nil {
		panic(err)
	}
	env := newC16Env(c.Cap)
	defer env.close()
	obs := &c16Obs{}
	e := vsched.Run(c.Choices, vsched.Options{Horizon: 100000, KeepLog: true}, c16Body(c, env, obs))
	vs := c16Check(c, env, e, obs)
	for i := range vs {
		vs[i].Case = c
		vs[i].Msg += "\nschedule (tail):\n  " + strings.Join(tail(e.Log, 40), "\n  ")
	}
	return vs
}

func tail(s []string, n int) []string {
	if len(s) > n {
		return s[len(s)-n:]
	}
	return s
}

func TestVerifC16(t *testing.T) {
	quiet()
	runtime.GOMAXPROCS(1) // the cooperative scheduler runs one goroutine at a time: hand-offs stay on one P
	if p := os.Getenv("VERIF_REPLAY"); p != "" {
		replayOr("C16", c16Replay)
		return
	}
	r := ev.NewRun("C16", "overlay cmd/thermal-recorder TestVerifC16")
	r.Rerun = func(cj []byte) []ev.Violation {
		vs := c16Replay(cj)
		for i := range vs {
			vs[i].Msg = strings.SplitN(vs[i].Msg, "\nschedule", 2)[0]
		}
		return vs
	}
	shard, nshards, child := ev.ShardInfo()
	if !child && r.Thorough() {
		// thorough tier: one process per shard of the root execution's alternatives
		exit, evs := ev.RunShards(14, "TestVerifC16")
		os.Setenv("VERIF_MERGE_EVIDENCE", strings.Join(evs, ","))
		c16Describe(r, ev.MinStageInt(evs, "completed_preemption_bound"), 3)
		if code := r.Finish(); code > exit {
			exit = code
		}
		if exit != 0 {
			os.Exit(exit)
		}
		return
	}
	w := r.Serial()
	bounds := []int{1}
	if r.Thorough() {
		bounds = []int{2, 3} // bound 2 completes; bound 3 runs under the time cap and is reported per scenario
	}
	scens := []c16Case{
		{Cap: 2, Frames: 3, Reqs: []string{"snap"}},
		{Cap: 3, Frames: 3, Reqs: []string{"snap2"}},
		{Cap: 2, Frames: 3, Reqs: []string{"snap", "testrec"}},
		{Cap: 2, Frames: 2, Reqs: []string{"snap", "info"}, Reconnect: "ok"},
		{Cap: 2, Frames: 2, Reqs: []string{"info", "snap"}, Reconnect: "truncated"},
		{Cap: 1, Frames: 3, Reqs: []string{"snap"}},
	}
	r.SetDeadline(map[bool]time.Duration{false: 20 * time.Minute, true: 45 * time.Minute}[r.Thorough()])
	per := map[string]interface{}{}
	completed := 0
	if !r.Thorough() {
		bounds = []int{1, 2} // quick: bound 1 on every scenario, bound 2 on the two smallest ones
	}
	for _, bound := range bounds {
		allComplete := true
		for si, sc := range scens {
			if !r.Thorough() && bound == 2 && si > 1 {
				continue
			}
			c := sc
			c.Bound = bound
			env := newC16Env(c.Cap)
			obs := &c16Obs{}
			e1 := vsched.Run(nil, vsched.Options{Horizon: 100000}, c16Body(c, env, obs))
			e2 := vsched.Run(e1.Choices(), vsched.Options{Horizon: 100000}, c16Body(c, env, obs))
			if fmt.Sprint(e1.Choices()) != fmt.Sprint(e2.Choices()) {
				fmt.Fprintf(os.Stderr, "HARNESS-ERROR: schedule replay is not deterministic for %+v\n", c)
				os.Exit(2)
			}
			x := &vsched.Explorer{Bound: bound, Opt: vsched.Options{Horizon: 100000}, Stop: r.Expired, Shard: shard, NShards: nshards}
			x.Body = func() { c16Body(c, env, obs)() }
			x.OnDiscard = func(e *vsched.Exec) { vos.CloseAll() }
			whole := 0
			x.Check = func(e *vsched.Exec) {
				w.Evaluations++
				w.Nontrivial++
				w.States += int64(len(e.Choices()))
				w.Transitions += int64(len(e.Choices()))
				vs := c16Check(c, env, e, obs)
				h := ""
				for _, sn := range obs.snaps {
					if sn.f != nil {
						whole++
						h += fmt.Sprint(sn.f.Pix[0][0], ",")
					} else {
						h += "nil,"
					}
				}
				w.Outcome(ev.Hash(c.Cap, c.Reqs, c.Reconnect, h, len(vs)))
				for _, v := range vs {
					cc := c
					cc.Choices = e.Choices()
					w.Violate(v.Sig, fmt.Sprintf("scenario %+v: %s", sc, v.Msg), cc, len(cc.Choices))
				}
			}
			x.Explore()
			per[fmt.Sprintf("bound=%d cap=%d frames=%d reqs=%v reconnect=%s", bound, c.Cap, c.Frames, c.Reqs, c.Reconnect)] = map[string]interface{}{"executions": x.Executions, "max_points": x.MaxPoints, "complete": !x.Capped, "snapshots_returned": whole}
			if x.Capped {
				allComplete = false
			}
			if w.WantSample() {
				w.Sample(map[string]interface{}{"scenario": c, "executions": x.Executions, "max_scheduling_points": x.MaxPoints})
			}
			env.close()
		}
		if allComplete && (r.Thorough() || bound == 1) {
			completed = bound
		} else if !allComplete && bound == bounds[0] {
			r.MarkCapped()
		}
	}
	r.Extra["completed_preemption_bound"] = completed
	if !r.Thorough() {
		r.Extra["bound_2_scenarios_in_quick"] = 2
	}
	r.Extra["shard"] = fmt.Sprintf("%d/%d", shard, nshards)
	r.Extra["scenarios"] = per
	if r.Thorough() {
		c16Describe(r, bounds[0], bounds[len(bounds)-1])
	} else {
		c16Describe(r, 1, 2)
	}
	finish(t, r)
}

func c16Describe(r *ev.Run, completeBound, maxBound int) {
	r.Bounds["preemption_bound_complete"] = completeBound
	r.Bounds["preemption_bound_attempted"] = maxBound
	r.Rule = "threads under the cooperative scheduler: T1 = real handleConn fed 2-3 uniform-valued Boson frames by an in-memory connection (optionally followed by a second connection with a complete or truncated header), T2 = newSnapshot(-1) once or twice, T3 = newSnapshotRecording() or service.CameraInfo(); scheduling points at every lock operation, every access to processor / headerInfo / CurrentFrame / StartSnapshot / ring index, every statement of the Boson parse loop and of Frame.Copy/CreateCopy; every interleaving with at most the stated number of preemptions (thorough: sharded over 14 processes; the higher bound runs under a time cap and is reported per scenario). Oracle: returned frames are uniform (not a mixture), unchanged after the request returned, belong to a received frame and are not older than the last frame processed when the request began; no deadlock, no panic, all frames processed; no two conflicting watched accesses unordered by lock happens-before. Non-trivial = every execution."
	r.Assumptions = []string{"sequentially consistent interleavings at the instrumented points + happens-before race check (weak-memory effects only through the race check)", "D-Bus calls inside handleConn fail fast offline and are not scheduling points"}
}
