package main

import yamlv2 "gopkg.in/yaml.v2"

func yamlv2Marshal(v interface{}) ([]byte, error) { return yamlv2.Marshal(v) }
