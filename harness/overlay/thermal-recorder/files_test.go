package main

import (
	"fmt"
	"io"
	"os"
	"path/filepath"
	"sort"
	"strings"
	"time"

	goconfig "github.com/TheCacophonyProject/go-config"
	cptv "github.com/TheCacophonyProject/go-cptv"
	"github.com/TheCacophonyProject/go-cptv/cptvframe"
	"github.com/TheCacophonyProject/thermal-recorder/recorder"
)

// ---- helpers shared by the file-level harnesses (C10, C11)

func testConfig(dir string) *Config {
	return &Config{
		DeviceID:   17,
		DeviceName: "verif-device",
		OutputDir:  dir,
		Recorder:   recorder.RecorderConfig{MinSecs: 1, MaxSecs: 2, PreviewSecs: 1},
		Motion:     goconfig.DefaultLeptonMotion(),
		Location:   goconfig.Location{Latitude: -43.5, Longitude: 172.6, Altitude: 12, Accuracy: 3, Timestamp: time.Date(2020, 1, 2, 3, 4, 5, 0, time.UTC)},
	}
}

func newRec(conf *Config, cam vcam) *CPTVFileRecorder {
	return NewCPTVFileRecorder(conf, cam, "flir", "lepton3.5", 12345, "1.2.3")
}

// tagFrame makes a frame whose content identifies (recording, index).
func tagFrame(cam vcam, rec, idx int) *cptvframe.Frame {
	f := cptvframe.NewFrame(cam)
	for y := range f.Pix {
		for x := range f.Pix[y] {
			f.Pix[y][x] = uint16(3000 + 97*rec + 13*idx + (x*7+y*3)%11)
		}
	}
	f.Pix[0][0] = uint16(rec)
	f.Pix[0][1] = uint16(idx)
	f.Status = cptvframe.Telemetry{TimeOn: time.Duration(60000+idx) * time.Millisecond, LastFFCTime: 1000 * time.Millisecond, TempC: 25.5, LastFFCTempC: 24.25}
	return f
}

type decoded struct {
	r      *cptv.FileReader
	frames []*cptvframe.Frame
}

// decodeAll decodes a CPTV file from header to EOF with the standard reader.
func decodeAll(path string) (*decoded, error) {
	r, err := cptv.NewFileReader(path)
	if err != nil {
		return nil, fmt.Errorf("header: %v", err)
	}
	defer r.Close()
	d := &decoded{r: r}
	for {
		f := r.EmptyFrame()
		err := r.ReadFrame(f)
		if err == io.EOF {
			break
		}
		if err != nil {
			return d, fmt.Errorf("frame %d: %v", len(d.frames)+1, err)
		}
		d.frames = append(d.frames, f)
	}
	if int(r.NumFrames()) != len(d.frames) {
		return d, fmt.Errorf("header says %d frames, file holds %d", r.NumFrames(), len(d.frames))
	}
	return d, nil
}

func samePix(a, b *cptvframe.Frame) bool {
	if len(a.Pix) != len(b.Pix) {
		return false
	}
	for y := range a.Pix {
		for x := range a.Pix[y] {
			if a.Pix[y][x] != b.Pix[y][x] {
				return false
			}
		}
	}
	return true
}

// listTree lists all regular files below dir (relative paths, sorted).
func listTree(dir string) []string {
	var out []string
	filepath.Walk(dir, func(p string, info os.FileInfo, err error) error {
		if err == nil && !info.IsDir() {
			rel, _ := filepath.Rel(dir, p)
			out = append(out, rel)
		}
		return nil
	})
	sort.Strings(out)
	return out
}

func suffixClass(name string) string {
	switch {
	case strings.HasSuffix(name, ".cptv.temp.tmp"):
		return ".cptv.temp.tmp"
	case strings.HasSuffix(name, ".cptv.temp"):
		return ".cptv.temp"
	case strings.HasSuffix(name, ".cptv"):
		return ".cptv"
	}
	return "other"
}

func mustYAML(v interface{}) string {
	b, err := yamlv2Marshal(v)
	if err != nil {
		panic(err)
	}
	return string(b)
}
