package main

// Harness code injected into package main of cmd/thermal-recorder by bin/overlay.sh.

import (
	"fmt"
	"io"
	"log"
	"os"
	"runtime/debug"
	"strings"
	"testing"

	"verifkit/ev"
)

type vcam struct{ x, y, fps int }

func (c vcam) ResX() int { return c.x }
func (c vcam) ResY() int { return c.y }
func (c vcam) FPS() int  { return c.fps }

func quiet() { log.SetOutput(io.Discard); log.SetFlags(0) }

// finish maps the run result to the process exit status required by the MANIFEST contract.
func finish(t *testing.T, r *ev.Run) {
	code := r.Finish()
	if code != 0 {
		os.Exit(code)
	}
}

// replayOr runs the replay file if one was given (exit status per contract), else returns false.
func replayOr(prop string, replay func(cj []byte) []ev.Violation) bool {
	p := os.Getenv("VERIF_REPLAY")
	if p == "" {
		return false
	}
	_, cj, err := ev.LoadReplay(p)
	if err != nil {
		fmt.Fprintln(os.Stderr, err)
		os.Exit(2)
	}
	os.Exit(ev.ReportReplay(prop, p, cj, replay(cj)))
	return true
}

// A panic of the code under test while a case runs is a finding about that case, not a harness failure:
// guard2/guard3 turn it into a violation of the running property (the replay panics again, so it reproduces).
func crashMsg(p interface{}) string {
	var keep []string
	for _, l := range strings.Split(string(debug.Stack()), "\n") {
		if strings.Contains(l, "thermal-recorder") && !strings.Contains(l, "zz_verif_") {
			keep = append(keep, strings.TrimSpace(l))
		}
		if len(keep) == 6 {
			break
		}
	}
	return fmt.Sprintf("the code under test panicked: %v | %s", p, strings.Join(keep, " <- "))
}

func guard2(prop string, f func() (string, string)) (sig, msg string) {
	defer func() {
		if p := recover(); p != nil {
			sig, msg = prop+":panic-in-code-under-test", crashMsg(p)
		}
	}()
	return f()
}

func guard3(prop string, f func() (string, string, int)) (sig, msg string, n int) {
	defer func() {
		if p := recover(); p != nil {
			sig, msg = prop+":panic-in-code-under-test", crashMsg(p)
		}
	}()
	return f()
}
