package main

// Harness code injected into package main of cmd/thermal-recorder by bin/overlay.sh.

import (
	"fmt"
	"io"
	"log"
	"os"
	"testing"

	"verifkit/ev"
)

type vcam struct{ x, y, fps int }

func (c vcam) ResX() int { return c.x }
func (c vcam) ResY() int { return c.y }
func (c vcam) FPS() int  { return c.fps }

func quiet() { log.SetOutput(io.Discard); log.SetFlags(0) }

// finish maps the run result to the process exit status required by the MANIFEST contract.
func finish(t *testing.T, r *ev.Run) {
	code := r.Finish()
	if code != 0 {
		os.Exit(code)
	}
}

// replayOr runs the replay file if one was given (exit status per contract), else returns false.
func replayOr(prop string, replay func(cj []byte) []ev.Violation) bool {
	p := os.Getenv("VERIF_REPLAY")
	if p == "" {
		return false
	}
	_, cj, err := ev.LoadReplay(p)
	if err != nil {
		fmt.Fprintln(os.Stderr, err)
		os.Exit(2)
	}
	os.Exit(ev.ReportReplay(prop, p, cj, replay(cj)))
	return true
}
