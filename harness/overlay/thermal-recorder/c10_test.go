package main

import (
	"encoding/json"
	"fmt"
	"os"
	"path/filepath"
	"strings"
	"testing"

	"github.com/TheCacophonyProject/go-cptv/cptvframe"

	"verifkit/ev"
	"verifkit/vos"
	"verifkit/vtime"
)

// C10 — only complete recordings ever bear the .cptv name; crashes leave no debris.
//
// Engine C: every file-system operation of a short recording history on the real
// CPTVFileRecorder + real go-cptv writer is a crash point (process kill). At every
// operation boundary the directory is inspected the way a concurrent observer would
// (I1); after the kill the real start-up clean-up runs and the directory must hold
// complete recordings only (I2).

type c10Case struct {
	History string `json:"history"`
	Size    string `json:"size"` // "8x6" or "160x120"
	CrashAt int    `json:"crash_before_op"`
	Torn    bool   `json:"torn_write,omitempty"`
	Crash2  int    `json:"second_kill_before_cleanup_op,omitempty"` // the restarted daemon is killed again inside its start-up clean-up
	// second generation: after the clean-up the restarted daemon records History2 into the same
	// directory and is killed before its Crash3-th operation (0 = runs to the end), then cleans up again
	History2 string `json:"history_after_restart,omitempty"`
	Crash3   int    `json:"kill_after_restart_before_op,omitempty"`
}

type c10Env struct {
	dir      string
	cam      vcam
	conf     *Config
	expected map[string][]*cptvframe.Frame // final path -> background + frames, for recordings whose stop was *begun*
	nrec     int
}

func (e *c10Env) start(r *CPTVFileRecorder) (string, []*cptvframe.Frame, error) {
	e.nrec++
	bg := tagFrame(e.cam, e.nrec, 0)
	if err := r.StartRecording(bg, 2900); err != nil {
		return "", nil, err
	}
	final := recordingFinalName(r.writer.Name())
	bgc := bg.CreateCopy()
	bgc.Status.BackgroundFrame = true
	return final, []*cptvframe.Frame{bgc}, nil
}

// runHistory performs the history; every recording registers its expected content
// before StopRecording is called (from then on the final name may legitimately appear).
func (e *c10Env) runHistory(h string) {
	rec := func(r *CPTVFileRecorder, n int, stop func(final string, fr []*cptvframe.Frame)) {
		final, fr, err := e.start(r)
		if err != nil {
			return
		}
		id := e.nrec
		for i := 1; i <= n; i++ {
			f := tagFrame(e.cam, id, i)
			r.WriteFrame(f)
			fr = append(fr, f)
		}
		stop(final, fr)
	}
	normalStop := func(r *CPTVFileRecorder) func(string, []*cptvframe.Frame) {
		return func(final string, fr []*cptvframe.Frame) {
			e.expected[final] = fr
			r.StopRecording()
		}
	}
	switch h {
	case "H1": // start, 3 frames, stop
		r := newRec(e.conf, e.cam)
		rec(r, 3, normalStop(r))
	case "H7": // a recording long enough for the writer's 4 KiB buffer to be flushed several times while recording
		r := newRec(e.conf, e.cam)
		rec(r, 120, normalStop(r))
	case "H2": // two recordings back to back on the same recorder
		r := newRec(e.conf, e.cam)
		rec(r, 2, normalStop(r))
		rec(r, 3, normalStop(r))
	case "H3": // connection lost while recording: Stop() discards the recording
		r := newRec(e.conf, e.cam)
		rec(r, 2, func(string, []*cptvframe.Frame) { r.Stop() })
	case "H5": // motion recording interleaved with a test recording in the same directory
		m, t := newRec(e.conf, e.cam), newRec(e.conf, e.cam)
		fm, frm, err1 := e.start(m)
		idm := e.nrec
		ft, frt, err2 := e.start(t)
		idt := e.nrec
		if err1 != nil || err2 != nil {
			return
		}
		for i := 1; i <= 2; i++ {
			a, b := tagFrame(e.cam, idm, i), tagFrame(e.cam, idt, i)
			m.WriteFrame(a)
			frm = append(frm, a)
			t.WriteFrame(b)
			frt = append(frt, b)
		}
		e.expected[fm] = frm
		m.StopRecording()
		e.expected[ft] = frt
		t.StopRecording()
	case "H6": // motion recording with the continuous recorder on (constant-recordings/)
		m, c := newRec(e.conf, e.cam), newRec(e.conf, e.cam)
		c.SetAsConstantRecorder()
		fc, frc, err := e.start(c)
		idc := e.nrec
		if err != nil {
			return
		}
		a := tagFrame(e.cam, idc, 1)
		c.WriteFrame(a)
		frc = append(frc, a)
		fm, frm, err := e.start(m)
		idm := e.nrec
		if err != nil {
			return
		}
		for i := 1; i <= 2; i++ {
			x, y := tagFrame(e.cam, idc, i+1), tagFrame(e.cam, idm, i)
			c.WriteFrame(x)
			frc = append(frc, x)
			m.WriteFrame(y)
			frm = append(frm, y)
		}
		e.expected[fc] = frc
		c.StopRecording()
		e.expected[fm] = frm
		m.StopRecording()
	case "H4", "H4c": // the start fails while the header is written; StopRecording follows (stopConstantRecorder does that on every bad frame)
		conf := *e.conf
		conf.DeviceName = strings.Repeat("n", 300) // a header string this long is refused by the CPTV writer
		r := newRec(&conf, e.cam)
		if h == "H4c" {
			r.SetAsConstantRecorder()
		}
		if err := r.StartRecording(tagFrame(e.cam, 1, 0), 2900); err == nil {
			panic("H4: the start was expected to fail")
		}
		r.StopRecording()
		// and a normal recording afterwards on the same recorder
		r.header.DeviceName = "verif-device"
		rec(r, 2, normalStop(r))
	default:
		panic("unknown history " + h)
	}
}

// checkI1: every *.cptv present right now is a complete recording with exactly the expected content.
func (e *c10Env) checkI1(when string) (string, string) {
	for _, rel := range listTree(e.dir) {
		if suffixClass(rel) != ".cptv" {
			continue
		}
		p := filepath.Join(e.dir, rel)
		d, err := decodeAll(p)
		if err != nil {
			return "C10:incomplete-file-bears-cptv-name", fmt.Sprintf("%s: %s does not decode from header to last frame: %v", when, rel, err)
		}
		want, ok := e.expected[p]
		if !ok {
			return "C10:unfinished-recording-bears-cptv-name", fmt.Sprintf("%s: %s exists although that recording has not been stopped", when, rel)
		}
		if len(d.frames) != len(want) {
			return "C10:cptv-file-misses-frames", fmt.Sprintf("%s: %s holds %d frames (incl. background), %d were recorded", when, rel, len(d.frames), len(want))
		}
		for i := range want {
			if !samePix(d.frames[i], want[i]) {
				return "C10:cptv-file-content", fmt.Sprintf("%s: %s frame %d differs from what was recorded", when, rel, i)
			}
		}
	}
	return "", ""
}

// checkI2: after the start-up clean-up the directory holds complete recordings only.
func (e *c10Env) checkI2(when string) (string, string) {
	for _, rel := range listTree(e.dir) {
		cls := suffixClass(rel)
		if cls == ".cptv" {
			continue // content checked by I1
		}
		where := "output-dir"
		if strings.HasPrefix(rel, "constant-recordings") {
			where = "constant-recordings"
		}
		return "C10:debris-after-cleanup:" + cls + ":" + where, fmt.Sprintf("%s: %s survives the start-up clean-up (deleteTempFiles)", when, rel)
	}
	return "", ""
}

func c10Cam(size string) vcam {
	if size == "160x120" {
		return vcam{160, 120, 9}
	}
	return vcam{8, 6, 9}
}

// runC10 executes one case; CrashAt == 0 is the uncrashed run with the observer at every boundary.
var cleanupOps int // operations of the last (possibly interrupted) clean-up

func runC10(c c10Case) (vs []ev.Violation, nops int) {
	defer func() {
		if p := recover(); p != nil {
			vs = append(vs, ev.Violation{Sig: "C10:panic-in-code-under-test", Msg: crashMsg(p), Case: c})
		}
	}()
	return runC100(c)
}

func runC100(c c10Case) (vs []ev.Violation, nops int) {
	dir, err := os.MkdirTemp("", "c10-")
	if err != nil {
		panic(err)
	}
	defer os.RemoveAll(dir)
	e := &c10Env{dir: dir, cam: c10Cam(c.Size), conf: testConfig(dir), expected: map[string][]*cptvframe.Frame{}}
	vos.Reset()
	vtime.Reset()
	add := func(sig, msg string) {
		if sig != "" {
			vs = append(vs, ev.Violation{Sig: sig, Msg: fmt.Sprintf("history %s, frames %s, crash before op %d (torn=%v): %s", c.History, c.Size, c.CrashAt, c.Torn, msg), Case: c})
		}
	}
	if c.CrashAt == 0 {
		seen := map[string]bool{}
		vos.Boundary = func(next vos.Op) {
			sig, msg := e.checkI1(fmt.Sprintf("observer before op %d (%s %s)", next.N, next.Kind, filepath.Base(next.Path)))
			if sig != "" && !seen[sig] {
				seen[sig] = true
				add(sig, msg)
			}
		}
	} else if c.Torn {
		vos.ArmTorn(c.CrashAt)
	} else {
		vos.ArmCrash(c.CrashAt)
	}
	crashed := false
	func() {
		defer func() {
			if p := recover(); p != nil {
				if _, ok := p.(vos.Crash); ok {
					crashed = true
					return
				}
				panic(p)
			}
		}()
		e.runHistory(c.History)
	}()
	nops = len(vos.Ops())
	vos.Boundary = nil
	vos.ArmCrash(0)
	vos.ArmTorn(0)
	vos.CloseAll() // the kernel closes the descriptors of a killed process; nothing is flushed
	_ = crashed
	when := "after the kill"
	if c.CrashAt == 0 {
		when = "after the complete history"
	}
	add(e.checkI1(when))
	if c.History == "H3" && c.CrashAt == 0 {
		if l := listTree(dir); len(l) != 0 {
			add("C10:discarded-recording-leaves-trace", fmt.Sprintf("after Stop() (connection lost) the directory still holds %v", l))
		}
	}
	// start-up clean-up, exactly as runMain does it - optionally killed itself before its Crash2-th operation,
	// after which the daemon starts (and cleans up) once more
	if c.Crash2 > 0 {
		vos.Reset()
		vos.ArmCrash(c.Crash2)
		func() {
			defer func() {
				if p := recover(); p != nil {
					if _, ok := p.(vos.Crash); !ok {
						panic(p)
					}
				}
			}()
			deleteTempFiles(e.conf.OutputDir)
		}()
		cleanupOps = len(vos.Ops())
		vos.ArmCrash(0)
		add(e.checkI1(when + " and an interrupted clean-up"))
	}
	vos.Reset()
	if err := deleteTempFiles(e.conf.OutputDir); err != nil {
		add("C10:cleanup-error", err.Error())
	}
	if c.Crash2 == 0 {
		cleanupOps = len(vos.Ops())
	}
	add(e.checkI1(when + " and clean-up"))
	add(e.checkI2(when + " and clean-up"))
	if c.History2 != "" {
		// the restarted daemon records again into the directory the first generation left behind
		vos.Reset()
		if c.Crash3 > 0 {
			vos.ArmCrash(c.Crash3)
		}
		func() {
			defer func() {
				if p := recover(); p != nil {
					if _, ok := p.(vos.Crash); !ok {
						panic(p)
					}
				}
			}()
			e.runHistory(c.History2)
		}()
		gen2Ops = len(vos.Ops())
		vos.ArmCrash(0)
		vos.CloseAll()
		when2 := fmt.Sprintf("%s, clean-up, restart, history %s killed before op %d", when, c.History2, c.Crash3)
		add(e.checkI1(when2))
		vos.Reset()
		if err := deleteTempFiles(e.conf.OutputDir); err != nil {
			add("C10:cleanup-error", err.Error())
		}
		add(e.checkI1(when2 + " and the second clean-up"))
		add(e.checkI2(when2 + " and the second clean-up"))
	}
	return vs, nops
}

var gen2Ops int // operations of the last second-generation history

func c10Replay(cj []byte) []ev.Violation {
	var c c10Case
	if err := json.Unmarshal(cj, &c); err != nil {
		panic(err)
	}
	vs, _ := runC10(c)
	return vs
}

func TestVerifC10(t *testing.T) {
	quiet()
	if replayOr("C10", c10Replay) {
		return
	}
	r := ev.NewRun("C10", "overlay cmd/thermal-recorder TestVerifC10")
	r.Rerun = c10Replay
	hist := []string{"H1", "H2", "H3", "H4", "H4c", "H5", "H6", "H7"}
	sizes := []string{"8x6"}
	if r.Thorough() {
		sizes = []string{"8x6", "160x120"}
	}
	r.Rule = "real CPTVFileRecorder + real go-cptv writer on a real temp directory, file-system calls numbered by the os->vos import rewrite: histories H1 (start, 3 frames, stop), H2 (two recordings), H3 (start, frames, Stop() on connection loss), H4/H4c (a start that fails while the header is written, followed by StopRecording and a normal recording; motion and continuous recorder), H5 (motion + test recording interleaved in one directory), H7 (120 frames: several buffer flushes mid-recording), H6 (motion + continuous recorder in constant-recordings/); one uncrashed run per history with a concurrent-observer check (every *.cptv decodes header-to-EOF and equals what was recorded) at EVERY operation boundary, then one run per crash point k=1..N (kill before operation k) and per torn write (first half of write k reaches the file), each followed by the real deleteTempFiles and the check that only complete recordings remain; plus, for every crash point, a second kill at every operation of that clean-up followed by a further start-up; plus second generations: after every crash point and its clean-up the restarted daemon records a further history (quick: H6; thorough: H1, H3, H5, H6) into the same directory and is killed before every one of its operations, followed by another clean-up. Non-trivial = crashed run."
	r.Assumptions = []string{"process-kill semantics: completed operations persist, user-space buffers are lost (power-loss durability is not claimed by C10)", "recording names come from a harness-owned clock advancing 1 ms per start"}
	w := r.Serial()
	points := map[string]int{}
	doubleKills := 0
	for _, h := range hist {
		for _, sz := range sizes {
			vs, n := runC10(c10Case{History: h, Size: sz})
			w.Evaluations++
			w.States += int64(n)
			w.Transitions += int64(n)
			points[h+"/"+sz] = n
			for _, v := range vs {
				w.Violate(v.Sig, v.Msg, v.Case, 0)
			}
			ops := vos.Ops()
			_ = ops
			for k := 1; k <= n; k++ {
				for _, torn := range []bool{false, true} {
					c := c10Case{History: h, Size: sz, CrashAt: k, Torn: torn}
					vs, _ := runC10(c)
					// the restarted daemon may itself be killed during the clean-up: every point of it
					nClean := cleanupOps // (runC10 overwrites the package variable)
					for k2 := 1; k2 <= nClean && !torn; k2++ {
						c2 := c
						c2.Crash2 = k2
						vs2, _ := runC10(c2)
						w.Evaluations++
						w.Nontrivial++
						w.States++
						doubleKills++
						for _, v := range vs2 {
							w.Violate(v.Sig, v.Msg, v.Case, k+k2)
						}
					}
					w.Evaluations++
					w.Nontrivial++
					w.States++
					w.Transitions += int64(k)
					sigs := ""
					for _, v := range vs {
						sigs += v.Sig
						w.Violate(v.Sig, v.Msg, v.Case, k)
					}
					w.Outcome(ev.Hash(h, sz, sigs, len(vs)))
					if w.WantSample() && k == n/2 {
						w.Sample(map[string]interface{}{"history": h, "size": sz, "crash_before_op": k, "torn": torn, "violations": len(vs)})
					}
				}
			}
		}
	}
	// second generation: every crash point of every history, clean-up, then the restarted daemon records again
	// in the same directory and is killed at every point of that history too (states reached from a
	// non-initial directory: survivors of the first generation, names already taken)
	hist2 := []string{"H6"}
	if r.Thorough() {
		hist2 = []string{"H1", "H3", "H6", "H5"}
	}
	gen2 := 0
	for _, h := range hist {
		for k := 1; k <= points[h+"/8x6"]; k++ {
			for _, h2 := range hist2 {
				n2 := 0
				for k3 := 0; k3 == 0 || k3 <= n2; k3++ {
					c := c10Case{History: h, Size: "8x6", CrashAt: k, History2: h2, Crash3: k3}
					vs, _ := runC10(c)
					if k3 == 0 {
						n2 = gen2Ops
					}
					gen2++
					w.Evaluations++
					w.Nontrivial++
					w.States++
					w.Transitions += int64(k + k3)
					sigs := ""
					for _, v := range vs {
						sigs += v.Sig
						w.Violate(v.Sig, v.Msg, v.Case, k+k3)
					}
					w.Outcome(ev.Hash(h, h2, sigs, len(vs)))
				}
			}
		}
	}
	r.Bounds["second_generation_cases"] = gen2
	r.Bounds["crash_points_per_history"] = points
	r.Bounds["double_kill_cases"] = doubleKills
	finish(t, r)
}
