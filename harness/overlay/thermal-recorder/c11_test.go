package main

import (
	"encoding/json"
	"fmt"
	"io"
	"os"
	"path/filepath"
	"strings"
	"testing"
	"time"

	goconfig "github.com/TheCacophonyProject/go-config"
	"github.com/TheCacophonyProject/go-cptv/cptvframe"

	"verifkit/ev"
	"verifkit/vos"
	"verifkit/vtime"
)

// C11 — finished files decode to exactly the recorded frames, metadata and settings.

type c11Case struct {
	Stage string `json:"stage"` // "pairs", "single", "meta", "e2e"
	// pairs: block of interior pixels over the value alphabet; Index selects the file (chunk of the pair sequence)
	Block int `json:"block_pixels,omitempty"`
	Chunk int `json:"chunk,omitempty"`
	// single
	X, Y int    `json:"x,omitempty"`
	Yy   int    `json:"-"`
	Pos  int    `json:"pos,omitempty"`
	Val  uint16 `json:"val,omitempty"`
	// meta
	Meta *c11Meta `json:"meta,omitempty"`
	// e2e
	S     *e2eSettings `json:"settings,omitempty"`
	S0    *e2eSettings `json:"first_connection_settings,omitempty"` // "reconnect" stage: an earlier connection on the same daemon
	Burst [2]int       `json:"motion_burst,omitempty"`
	N     int          `json:"frames,omitempty"`
	ReqAt int          `json:"test_recording_request_before_frame_index,omitempty"`
}

type c11Meta struct {
	DeviceName string  `json:"device_name"`
	DeviceID   int     `json:"device_id"`
	Brand      string  `json:"brand"`
	Model      string  `json:"model"`
	Serial     int     `json:"serial"`
	Firmware   string  `json:"firmware"`
	Lat        float32 `json:"lat"`
	Long       float32 `json:"long"`
	Alt        float32 `json:"alt"`
	Acc        float32 `json:"acc"`
	LocTime    bool    `json:"loc_time_set"`
	Preview    int     `json:"preview_secs"`
	FPS        int     `json:"fps"`
	Thresh     uint16  `json:"threshold_at_trigger"`
	MotionSet  int     `json:"motion_variant"`
	TimeOn     uint32  `json:"time_on_ms"`
	FFC        uint32  `json:"last_ffc_ms"`
	TempC      float64 `json:"temp_c"`
	FFCTempC   float64 `json:"ffc_temp_c"`
}

var c11Vals = []uint16{1, 255, 256, 32767, 32768, 65535}

func c11Motion(variant int) goconfig.ThermalMotion {
	switch variant {
	case 1: // every field at its minimum
		return goconfig.ThermalMotion{}
	case 2: // every field at a large in-range value
		return goconfig.ThermalMotion{DynamicThreshold: true, TempThreshMin: 65535, TempThreshMax: 65535, TempThresh: 65535, DeltaThresh: 65535, CountThresh: 19200, FrameCompareGap: 600, UseOneDiffOnly: true, TriggerFrames: 90, WarmerOnly: true, EdgePixels: 59, Verbose: true}
	}
	return goconfig.DefaultLeptonMotion()
}

// record writes one recording through the real file recorder and decodes it back.
func c11Roundtrip(cam vcam, m c11Meta, bg *cptvframe.Frame, frames []*cptvframe.Frame) (*decoded, string, func(), error) {
	dir, err := os.MkdirTemp("", "c11-")
	if err != nil {
		panic(err)
	}
	cleanup := func() { os.RemoveAll(dir) }
	vos.Reset()
	vtime.Reset()
	conf := &Config{DeviceID: m.DeviceID, DeviceName: m.DeviceName, OutputDir: dir, Motion: c11Motion(m.MotionSet)}
	conf.Recorder.PreviewSecs = m.Preview
	conf.Location = goconfig.Location{Latitude: m.Lat, Longitude: m.Long, Altitude: m.Alt, Accuracy: m.Acc}
	if m.LocTime {
		conf.Location.Timestamp = time.Date(2019, 12, 31, 23, 59, 58, 0, time.UTC)
	}
	rec := NewCPTVFileRecorder(conf, cam, m.Brand, m.Model, m.Serial, m.Firmware)
	if err := rec.StartRecording(bg, m.Thresh); err != nil {
		return nil, "", cleanup, fmt.Errorf("StartRecording: %v", err)
	}
	for _, f := range frames {
		if err := rec.WriteFrame(f); err != nil {
			return nil, "", cleanup, fmt.Errorf("WriteFrame: %v", err)
		}
	}
	if err := rec.StopRecording(); err != nil {
		return nil, "", cleanup, fmt.Errorf("StopRecording: %v", err)
	}
	files := listTree(dir)
	if len(files) != 1 || suffixClass(files[0]) != ".cptv" {
		return nil, "", cleanup, fmt.Errorf("after stop the directory holds %v, expected exactly one .cptv", files)
	}
	d, err := decodeAll(filepath.Join(dir, files[0]))
	return d, mustYAML(conf.Motion), cleanup, err
}

func defaultMeta() c11Meta {
	return c11Meta{DeviceName: "dev", DeviceID: 5, Brand: "flir", Model: "lepton3", Serial: 99, Firmware: "1.2.3", Lat: -43.5, Long: 172.5, Alt: 10, Acc: 2, LocTime: true, Preview: 3, FPS: 9, Thresh: 2950, TimeOn: 123456, FFC: 1000, TempC: 21.5, FFCTempC: 20.25}
}

func checkFrames(d *decoded, bg *cptvframe.Frame, frames []*cptvframe.Frame) (string, string) {
	if len(d.frames) != len(frames)+1 {
		return "C11:frame-count", fmt.Sprintf("file holds %d frames, recorded background + %d", len(d.frames), len(frames))
	}
	if !d.frames[0].Status.BackgroundFrame || !samePix(d.frames[0], bg) {
		return "C11:background-frame", "first decoded frame is not the background frame handed to StartRecording"
	}
	for i, f := range frames {
		g := d.frames[i+1]
		if !samePix(g, f) {
			return "C11:frame-pixels", fmt.Sprintf("frame %d decodes differently from what was recorded (recorded %v, decoded %v)", i+1, f.Pix, g.Pix)
		}
		if g.Status.BackgroundFrame {
			return "C11:frame-flag", fmt.Sprintf("frame %d decodes as a background frame", i+1)
		}
		if g.Status.TimeOn != f.Status.TimeOn || g.Status.LastFFCTime != f.Status.LastFFCTime || float32(g.Status.TempC) != float32(f.Status.TempC) || float32(g.Status.LastFFCTempC) != float32(f.Status.LastFFCTempC) {
			return "C11:frame-telemetry", fmt.Sprintf("frame %d telemetry decoded %+v, recorded %+v", i+1, g.Status, f.Status)
		}
	}
	return "", ""
}

func c11Images(block int) [][]uint16 {
	n := 1
	for i := 0; i < block; i++ {
		n *= len(c11Vals)
	}
	imgs := make([][]uint16, n)
	for k := 0; k < n; k++ {
		img := make([]uint16, block)
		x := k
		for i := 0; i < block; i++ {
			img[i] = c11Vals[x%len(c11Vals)]
			x /= len(c11Vals)
		}
		imgs[k] = img
	}
	return imgs
}

const c11ChunkPairs = 25000

// pairs stage: every ordered pair of images over the block occurs as two consecutive frames.
func runC11Pairs(c c11Case) (string, string, int) {
	return guard3("C11", func() (string, string, int) { return runC11Pairs0(c) })
}

func runC11Pairs0(c c11Case) (string, string, int) {
	cam := vcam{4, 3, 9}
	imgs := c11Images(c.Block)
	total := len(imgs) * len(imgs)
	lo, hi := c.Chunk*c11ChunkPairs, (c.Chunk+1)*c11ChunkPairs
	if hi > total {
		hi = total
	}
	mk := func(img []uint16, n int) *cptvframe.Frame {
		f := cptvframe.NewFrame(cam)
		for y := range f.Pix {
			for x := range f.Pix[y] {
				f.Pix[y][x] = 3000
			}
		}
		for i, v := range img {
			f.Pix[1+i/2][1+i%2] = v
		}
		f.Status = cptvframe.Telemetry{TimeOn: time.Duration(1000+n) * time.Millisecond, LastFFCTime: 500 * time.Millisecond, TempC: 20, LastFFCTempC: 19}
		return f
	}
	var frames []*cptvframe.Frame
	for p := lo; p < hi; p++ {
		frames = append(frames, mk(imgs[p/len(imgs)], 2*(p-lo)), mk(imgs[p%len(imgs)], 2*(p-lo)+1))
	}
	bg := mk(imgs[0], 0)
	bg.Status = cptvframe.Telemetry{}
	d, _, cleanup, err := c11Roundtrip(cam, defaultMeta(), bg, frames)
	defer cleanup()
	if err != nil {
		return "C11:file-does-not-decode", err.Error(), hi - lo
	}
	sig, msg := checkFrames(d, bg, frames)
	return sig, msg, hi - lo
}

func runC11Single(c c11Case) (string, string) {
	return guard2("C11", func() (string, string) { return runC11Single0(c) })
}

func runC11Single0(c c11Case) (string, string) {
	cam := vcam{c.X, c.Y, 9}
	mk := func(v uint16, pos int, n int) *cptvframe.Frame {
		f := cptvframe.NewFrame(cam)
		for y := range f.Pix {
			for x := range f.Pix[y] {
				f.Pix[y][x] = uint16(2800 + (x+y)%7)
			}
		}
		if pos >= 0 {
			f.Pix[pos/c.X][pos%c.X] = v
		}
		f.Status = cptvframe.Telemetry{TimeOn: time.Duration(5000+n) * time.Millisecond, LastFFCTime: 4000 * time.Millisecond, TempC: 22.25, LastFFCTempC: 21}
		return f
	}
	bg := mk(0, -1, 0)
	bg.Status = cptvframe.Telemetry{}
	frames := []*cptvframe.Frame{mk(0, -1, 1), mk(c.Val, c.Pos, 2), mk(0, -1, 3), mk(c.Val, c.Pos, 4), mk(65535-c.Val, c.Pos, 5)}
	d, _, cleanup, err := c11Roundtrip(cam, defaultMeta(), bg, frames)
	defer cleanup()
	if err != nil {
		return "C11:file-does-not-decode", err.Error()
	}
	return checkFrames(d, bg, frames)
}

func runC11Meta(m c11Meta) (string, string) {
	return guard2("C11", func() (string, string) { return runC11Meta0(m) })
}

func runC11Meta0(m c11Meta) (string, string) {
	cam := vcam{8, 6, m.FPS}
	f := cptvframe.NewFrame(cam)
	for y := range f.Pix {
		for x := range f.Pix[y] {
			f.Pix[y][x] = uint16(3000 + x + y)
		}
	}
	f.Status = cptvframe.Telemetry{TimeOn: time.Duration(m.TimeOn) * time.Millisecond, LastFFCTime: time.Duration(m.FFC) * time.Millisecond, TempC: m.TempC, LastFFCTempC: m.FFCTempC}
	bg := f.CreateCopy()
	bg.Status = cptvframe.Telemetry{}
	d, motionYAML, cleanup, err := c11Roundtrip(cam, m, bg, []*cptvframe.Frame{f})
	defer cleanup()
	if err != nil {
		return "C11:file-does-not-decode", fmt.Sprintf("%+v: %v", m, err)
	}
	if sig, msg := checkFrames(d, bg, []*cptvframe.Frame{f}); sig != "" {
		return sig, fmt.Sprintf("%+v: %s", m, msg)
	}
	h := d.r
	wantID := m.DeviceID
	bad := func(field string, got, want interface{}) (string, string) {
		return "C11:header:" + field, fmt.Sprintf("%s decodes as %v, recorded %v (description %+v)", field, got, want, m)
	}
	switch {
	case h.DeviceName() != m.DeviceName:
		return bad("device-name", h.DeviceName(), m.DeviceName)
	case h.DeviceID() != wantID:
		return bad("device-id", h.DeviceID(), wantID)
	// an empty string is stored as "field absent"; the standard reader then reports its own default
	// (flir / lepton3 / <unknown>), so only non-empty descriptions are compared
	case m.Brand != "" && h.BrandName() != m.Brand:
		return bad("brand", h.BrandName(), m.Brand)
	case m.Model != "" && h.ModelName() != m.Model:
		return bad("model", h.ModelName(), m.Model)
	case h.SerialNumber() != m.Serial:
		return bad("serial", h.SerialNumber(), m.Serial)
	case m.Firmware != "" && h.FirmwareVersion() != m.Firmware:
		return bad("firmware", h.FirmwareVersion(), m.Firmware)
	case h.ResX() != 8 || h.ResY() != 6:
		return bad("resolution", fmt.Sprint(h.ResX(), "x", h.ResY()), "8x6")
	case h.FPS() != m.FPS:
		return bad("fps", h.FPS(), m.FPS)
	case h.PreviewSecs() != m.Preview:
		return bad("preview-secs", h.PreviewSecs(), m.Preview)
	case h.Latitude() != m.Lat:
		return bad("latitude", h.Latitude(), m.Lat)
	case h.Longitude() != m.Long:
		return bad("longitude", h.Longitude(), m.Long)
	case h.Altitude() != m.Alt && !(m.Alt < 0 && h.Altitude() == 0):
		return bad("altitude", h.Altitude(), m.Alt)
	case h.Accuracy() != m.Acc:
		return bad("accuracy", h.Accuracy(), m.Acc)
	case m.LocTime != !h.LocTimestamp().IsZero() || (m.LocTime && !h.LocTimestamp().Equal(time.Date(2019, 12, 31, 23, 59, 58, 0, time.UTC))):
		return bad("location-timestamp", h.LocTimestamp(), m.LocTime)
	case h.MotionConfig() != fmt.Sprintf("%striggeredthresh: %d\n", motionYAML, m.Thresh):
		return bad("motion-config", h.MotionConfig(), fmt.Sprintf("%striggeredthresh: %d\n", motionYAML, m.Thresh))
	case !h.HasBackgroundFrame():
		return bad("background-flag", false, true)
	}
	return "", ""
}

func (c c11Case) e2eItems() []e2eItem {
	s := *c.S
	var items []e2eItem
	level := uint16(2000)
	for n := 1; n <= c.N; n++ {
		in := n >= c.Burst[0] && n < c.Burst[1]
		switch {
		case s.ModelMotionDefaults:
			// the camera-model defaults compare with a frame 45 frames back and need consecutive motion
			// frames: a warm object that stays for the whole burst
			level = 2000
			if in {
				level = 3000
			}
		case in:
			if level == 2000 {
				level = 3000
			} else {
				level = 2000
			}
		}
		items = append(items, e2eItem{Frame: s.sceneFrame(n, level)})
	}
	return items
}

func runC11E2E(c c11Case) (string, string, int) {
	return guard3("C11", func() (string, string, int) { return runC11E2E0(c) })
}

func runC11E2E0(c c11Case) (string, string, int) {
	s := *c.S
	items := c.e2eItems()
	res, _ := s.runHandleConn(s.stream(items), nil, false)
	defer os.RemoveAll(res.dir)
	if res.err != io.EOF {
		return "C11:e2e:connection-end", fmt.Sprintf("%+v: handleConn returned %v", s, res.err), 0
	}
	ref := s.reference(items)
	nrec := 0
	for _, r := range ref {
		if r.closed && r.kind == 'm' {
			nrec++
		}
	}
	if sig, msg := s.compareWithReference(res, ref); sig != "" {
		return "C11:e2e:" + sig, fmt.Sprintf("settings %+v, %d frames with motion in frames [%d,%d): %s", s, c.N, c.Burst[0], c.Burst[1], msg), nrec
	}
	return "", "", nrec
}

// runC11Reconnect: the camera reconnects to the same daemon instance as another model; the second
// connection's files must be shaped by the second model's motion defaults.
// runC11Request: a TakeTestRecording request arrives through the service while the stream is being
// processed (before, during and after a motion recording); every finished file - motion, continuous and
// test recording - must be what a processor with three separate sinks would have produced.
func runC11Request(c c11Case) (string, string) {
	return guard2("C11", func() (string, string) {
		s := *c.S
		frames := c.e2eItems()
		var items []e2eItem
		for i, it := range frames {
			if i == c.ReqAt {
				items = append(items, e2eItem{Request: true})
			}
			items = append(items, it)
		}
		accepted := 0
		e2eHooks = map[int]func(){}
		for _, off := range s.requestOffsets(items) {
			e2eHooks[off] = func() {
				if (&service{}).TakeTestRecording() == nil {
					accepted++
				}
			}
		}
		res, _ := s.runHandleConn(s.stream(items), nil, false)
		defer os.RemoveAll(res.dir)
		if res.err != io.EOF {
			return "C11:e2e-request:connection-end", fmt.Sprintf("%+v, test-recording request before frame %d: handleConn returned %v", s, c.ReqAt+1, res.err)
		}
		if accepted != 1 {
			return "C11:e2e-request:not-accepted", fmt.Sprintf("TakeTestRecording before frame %d was not accepted", c.ReqAt+1)
		}
		if sig, msg := s.compareWithReference(res, s.reference(items)); sig != "" {
			return "C11:e2e-request:" + sig, fmt.Sprintf("settings %+v, %d frames with motion in frames [%d,%d), test-recording request before frame %d: %s", s, c.N, c.Burst[0], c.Burst[1], c.ReqAt+1, msg)
		}
		return "", ""
	})
}

func runC11Reconnect(c c11Case) (string, string) {
	return guard2("C11", func() (string, string) { return runC11Reconnect0(c) })
}

func runC11Reconnect0(c c11Case) (string, string) {
	s1, s2 := *c.S0, *c.S
	c1 := c
	c1.S = &s1
	res := runHandleConnTwice(s1, s2, s1.stream(c1.e2eItems()), s2.stream(c.e2eItems()))
	defer os.RemoveAll(res.dir)
	if res.err != io.EOF {
		return "C11:reconnect:connection-end", fmt.Sprintf("%v", res.err)
	}
	if sig, msg := s2.compareWithReference(res, s2.reference(c.e2eItems())); sig != "" {
		return "C11:reconnect:" + sig, fmt.Sprintf("camera reconnected as %s after a %s connection on the same daemon: %s", s2.Model, s1.Model, msg)
	}
	return "", ""
}

func runC11(c c11Case) (string, string) {
	switch c.Stage {
	case "reconnect":
		return runC11Reconnect(c)
	case "e2e-request":
		return runC11Request(c)
	case "pairs":
		sig, msg, _ := runC11Pairs(c)
		return sig, msg
	case "single":
		return runC11Single(c)
	case "meta":
		return runC11Meta(*c.Meta)
	}
	sig, msg, _ := runC11E2E(c)
	return sig, msg
}

func c11Replay(cj []byte) []ev.Violation {
	var c c11Case
	if err := json.Unmarshal(cj, &c); err != nil {
		panic(err)
	}
	if sig, msg := runC11(c); sig != "" {
		return []ev.Violation{{Sig: sig, Msg: msg, Case: c}}
	}
	return nil
}

func TestVerifC11(t *testing.T) {
	quiet()
	if replayOr("C11", c11Replay) {
		return
	}
	r := ev.NewRun("C11", "overlay cmd/thermal-recorder TestVerifC11")
	r.Rerun = c11Replay
	w := r.Serial()
	viol := func(c c11Case, sig, msg string) {
		if sig != "" {
			w.Violate(sig, msg, c, 1)
		}
	}
	// (a1) inter-frame coding: every ordered pair of images over a block of interior pixels
	block := 3
	if r.Thorough() {
		block = 4
	}
	imgs := len(c11Images(block))
	chunks := (imgs*imgs + c11ChunkPairs - 1) / c11ChunkPairs
	pairs := 0
	for ch := 0; ch < chunks; ch++ {
		c := c11Case{Stage: "pairs", Block: block, Chunk: ch}
		sig, msg, n := runC11Pairs(c)
		pairs += n
		w.Evaluations += int64(n)
		w.Nontrivial += int64(n)
		w.States += int64(n)
		w.Transitions += int64(2 * n)
		w.Outcome(ev.Hash("pairs", sig))
		viol(c, sig, msg)
	}
	r.Bounds["frame_pairs"] = pairs
	// (a2) single pixel x value x position
	sizes := [][2]int{{8, 6}}
	if r.Thorough() {
		sizes = append(sizes, [2]int{160, 120})
	}
	singles := 0
	for _, sz := range sizes {
		step := 1
		if sz[0] == 160 {
			step = 97 // every 97th position of the large image (plus corners below)
		}
		var positions []int
		for p := 0; p < sz[0]*sz[1]; p += step {
			positions = append(positions, p)
		}
		positions = append(positions, sz[0]-1, sz[0]*(sz[1]-1), sz[0]*sz[1]-1)
		for _, p := range positions {
			for _, v := range append([]uint16{0}, c11Vals...) {
				c := c11Case{Stage: "single", X: sz[0], Y: sz[1], Pos: p, Val: v}
				sig, msg := runC11Single(c)
				singles++
				w.Evaluations++
				w.Nontrivial++
				w.States++
				w.Transitions += 5
				viol(c, sig, msg)
			}
		}
	}
	r.Bounds["single_pixel_cases"] = singles
	// (a3) metadata: one field varied at a time over boundary values (and a few combinations)
	long255 := strings.Repeat("x", 255)
	var metas []c11Meta
	vary := func(f func(m *c11Meta)) {
		m := defaultMeta()
		f(&m)
		metas = append(metas, m)
	}
	vary(func(m *c11Meta) {})
	for _, s := range []string{"", "a", long255, "naïve: \"quoted\" #x\n- y", "trailing space "} {
		s := s
		vary(func(m *c11Meta) { m.DeviceName = s })
		vary(func(m *c11Meta) { m.Firmware = s })
		vary(func(m *c11Meta) { m.Brand = s })
		vary(func(m *c11Meta) { m.Model = s })
	}
	for _, id := range []int{0, 1, 1<<31 - 1} {
		id := id
		vary(func(m *c11Meta) { m.DeviceID = id })
		vary(func(m *c11Meta) { m.Serial = id })
	}
	for _, lat := range []float32{0, 51.5, -51.5} {
		for _, lon := range []float32{0, 172.25, -0.125} {
			for _, alt := range []float32{0, 123.5} {
				for _, acc := range []float32{0, 9} {
					for _, lt := range []bool{false, true} {
						lat, lon, alt, acc, lt := lat, lon, alt, acc, lt
						vary(func(m *c11Meta) { m.Lat, m.Long, m.Alt, m.Acc, m.LocTime = lat, lon, alt, acc, lt })
					}
				}
			}
		}
	}
	for _, th := range []uint16{0, 1, 65535} {
		th := th
		vary(func(m *c11Meta) { m.Thresh = th })
	}
	for _, pv := range []int{0, 1, 255} {
		pv := pv
		vary(func(m *c11Meta) { m.Preview = pv })
	}
	for _, fps := range []int{1, 9, 60, 255} {
		fps := fps
		vary(func(m *c11Meta) { m.FPS = fps })
	}
	for _, mv := range []int{1, 2} {
		mv := mv
		vary(func(m *c11Meta) { m.MotionSet = mv })
	}
	for _, tv := range []uint32{0, 1, 9999, 10000, 0x7FFFFFFF, 0xFFFFFFFF} {
		tv := tv
		vary(func(m *c11Meta) { m.TimeOn = tv })
		vary(func(m *c11Meta) { m.FFC = tv })
	}
	for _, tc := range []float64{-273.15, -0.01, 0, 0.01, 382.2} {
		tc := tc
		vary(func(m *c11Meta) { m.TempC = tc })
		vary(func(m *c11Meta) { m.FFCTempC = tc })
	}
	maxYAML := 0
	for i := range metas {
		m := metas[i]
		c := c11Case{Stage: "meta", Meta: &m}
		sig, msg := runC11Meta(m)
		w.Evaluations++
		w.Nontrivial++
		w.States++
		w.Transitions++
		w.Outcome(ev.Hash("meta", sig, i))
		viol(c, sig, msg)
		if n := len(mustYAML(c11Motion(m.MotionSet))) + len("triggeredthresh: 65535\n"); n > maxYAML {
			maxYAML = n
		}
	}
	r.Bounds["metadata_descriptions"] = len(metas)
	r.Extra["max_motion_yaml_bytes_seen"] = maxYAML
	// (b) end to end: socket bytes + config.toml -> files
	var combos []e2eSettings
	for _, model := range []string{"boson", "lepton3", "lepton3.5"} {
		for _, mmp := range [][3]int{{1, 2, 1}, {0, 1, 0}, {0, 2, 1}, {2, 2, 2}, {1, 3, 0}} {
			for _, trg := range []int{1, 2} {
				for _, thr := range []bool{false, true} {
					for _, con := range []bool{false, true} {
						s := e2eSettings{Model: model, ResX: 5, ResY: 4, FPS: 2, Serial: 4242, Firmware: "3.3.17", Min: mmp[0], Max: mmp[1], Preview: mmp[2], Trigger: trg, Throttle: thr, BucketSecs: 4, Constant: con, DeviceName: "e2e-dev", DeviceID: 31}
						if model != "boson" {
							s.ResX, s.ResY, s.FPS = 160, 120, 9
							s.ModelMotionDefaults = true
							s.Trigger = -1
							if trg == 2 {
								continue
							}
						}
						if thr && s.Min+s.Preview == 0 {
							// throttling with a zero minimum recording length makes juju/ratelimit panic on a
							// zero refill rate when the camera connects (noted in DESIGN.md as a finding outside
							// the listed properties; C06 excludes it explicitly) - not an in-range combination
							continue
						}
						combos = append(combos, s)
					}
				}
			}
		}
	}
	recs := 0
	recsPerModel := map[string]int{}
	// motion patterns: one burst in the middle; thorough also an early short burst and a burst that is
	// still going on when the connection ends (the open recording is discarded, never finished)
	bursts := [][2]int{{8, 26}}
	if r.Thorough() {
		bursts = [][2]int{{8, 26}, {2, 9}, {20, 40}}
	}
	for bi := 0; bi < len(bursts)*len(combos); bi++ {
		i, b := bi%len(combos), bursts[bi/len(combos)]
		s := combos[i]
		c := c11Case{Stage: "e2e", S: &s, N: 40, Burst: b}
		if s.Model != "boson" {
			c.N = 30
			c.Burst = [2]int{b[0] * 5 / 8, b[1] * 16 / 26}
		}
		sig, msg, n := runC11E2E(c)
		recs += n
		recsPerModel[s.Model] += n
		w.Evaluations++
		w.Nontrivial++
		w.States++
		w.Transitions += int64(c.N)
		w.Outcome(ev.Hash("e2e", sig, n, s.Model, s.Throttle))
		viol(c, sig, msg)
		if w.WantSample() {
			w.Sample(map[string]interface{}{"stage": "e2e", "settings": s, "frames": c.N, "motion_burst": c.Burst, "motion_recordings_predicted": n})
		}
	}
	// (b3) a TakeTestRecording request before, during and after the motion recording
	reqCases := 0
	for _, con := range []bool{false, true} {
		for _, thr := range []bool{false, true} {
			for _, at := range []int{3, 9, 12, 27, 40} {
				s := e2eSettings{Model: "boson", ResX: 5, ResY: 4, FPS: 2, Serial: 4242, Firmware: "3.3.17", Min: 2, Max: 6, Preview: 1, Trigger: 1, Throttle: thr, BucketSecs: 30, Constant: con, DeviceName: "e2e-dev", DeviceID: 31}
				c := c11Case{Stage: "e2e-request", S: &s, N: 70, Burst: [2]int{8, 26}, ReqAt: at}
				sig, msg := runC11Request(c)
				reqCases++
				w.Evaluations++
				w.Nontrivial++
				w.States++
				w.Transitions += int64(c.N)
				w.Outcome(ev.Hash("e2e-request", con, thr, at, sig))
				viol(c, sig, msg)
			}
		}
	}
	r.Bounds["e2e_request_cases"] = reqCases
	// (b2) reconnect as a different camera model on the same daemon instance
	mkS := func(model string) e2eSettings {
		s := e2eSettings{Model: model, ResX: 160, ResY: 120, FPS: 9, Serial: 7, Firmware: "2.0.1", Min: 1, Max: 2, Preview: 1, Trigger: -1, BucketSecs: 4, Constant: true, DeviceName: "e2e-dev", DeviceID: 31, ModelMotionDefaults: true}
		if model == "boson" {
			s.ResX, s.ResY = 16, 12
		}
		return s
	}
	for _, pair := range [][2]string{{"lepton3", "lepton3.5"}, {"lepton3.5", "lepton3"}, {"boson", "lepton3.5"}, {"lepton3", "lepton3"}} {
		s1, s2 := mkS(pair[0]), mkS(pair[1])
		c := c11Case{Stage: "reconnect", S0: &s1, S: &s2, N: 30, Burst: [2]int{5, 16}}
		sig, msg := runC11Reconnect(c)
		w.Evaluations++
		w.Nontrivial++
		w.States++
		w.Transitions += 60
		w.Outcome(ev.Hash("reconnect", pair, sig))
		viol(c, sig, msg)
	}
	r.Bounds["e2e_setting_combinations"] = len(combos)
	r.Bounds["e2e_motion_patterns"] = len(bursts)
	r.Extra["e2e_motion_recordings_compared"] = recs
	r.Extra["e2e_motion_recordings_per_model"] = recsPerModel
	r.Rule = "(a) recorder level, real CPTVFileRecorder -> go-cptv writer -> standard reader: every ordered pair of images over a block of 3 (quick) / 4 (thorough) interior pixels x values {1,255,256,32767,32768,65535} as consecutive frames (inter-frame delta coding), every pixel position x value on 8x6 (and sampled positions on 160x120), telemetry words / temperatures / threshold / preview / fps / ids / strings of length 0,1,255 and YAML-hostile content / location components 0, +, -, unset, one field at a time; (b) end to end: generated config.toml (min/max/preview secs, trigger frames, throttling on/off, camera model lepton3 / lepton3.5 with model motion defaults / boson, continuous recorder on/off) parsed by the real ParseConfig, socket bytes served to the real handleConn, every finished file compared (frames, background, threshold, header incl. motion YAML) with the recordings predicted by driving a real MotionProcessor wired by the harness from the same settings; plus a TakeTestRecording request through the service before, during and after the motion recording (continuous recorder and throttling on/off): motion, continuous and test recordings must all be what a processor with three separate sinks produces; plus the camera reconnecting to the same daemon instance as another model (lepton3 <-> lepton3.5, boson -> lepton3.5): the second connection's files must follow the second model's defaults. Non-trivial = every case."
	r.Assumptions = []string{"data values outside the alphabets are not covered: universality over 16-bit data is not what state enumeration gives", "the reference side of (b) shares the motion processor, detector, throttle and parsers with the daemon (they are decided by C01-C09/C13); what is compared is main.go/config.go wiring and the file recorder", "NewThrottledRecorder uses the real clock: min-refill 24 h makes its contribution < 1 token"}
	finish(t, r)
}
