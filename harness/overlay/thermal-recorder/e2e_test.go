package main

// Engine D: end-to-end driver. A generated config.toml is parsed by the real ParseConfig,
// an in-memory connection serves the camera byte stream to the real handleConn, and the
// files it produces are compared with the recordings predicted by driving a real
// MotionProcessor directly (same parser, same settings, monitored sinks) - so the only
// code not shared between the two sides is main.go's socket loop and wiring, config.go,
// and the file recorder.

import (
	"encoding/binary"
	"errors"
	"fmt"
	"io"
	"net"
	"os"
	"path/filepath"
	"sort"
	"strings"
	"time"

	goconfig "github.com/TheCacophonyProject/go-config"
	"github.com/TheCacophonyProject/go-cptv/cptvframe"
	"github.com/TheCacophonyProject/lepton3"
	"github.com/TheCacophonyProject/thermal-recorder/headers"
	"github.com/TheCacophonyProject/thermal-recorder/motion"
	"github.com/TheCacophonyProject/thermal-recorder/recorder"
	"github.com/TheCacophonyProject/thermal-recorder/throttle"
	"github.com/TheCacophonyProject/window"
	yamlv1 "gopkg.in/yaml.v1"

	"verifkit/vos"
	"verifkit/vtime"
)

type e2eSettings struct {
	Model               string `json:"model"` // lepton3 | lepton3.5 | boson
	ResX                int    `json:"res_x"`
	ResY                int    `json:"res_y"`
	FPS                 int    `json:"fps"`
	Serial              int    `json:"serial"`
	Firmware            string `json:"firmware"`
	Min                 int    `json:"min_secs"`
	Max                 int    `json:"max_secs"`
	Preview             int    `json:"preview_secs"`
	Trigger             int    `json:"trigger_frames"` // -1: leave the camera-model default
	Throttle            bool   `json:"throttle"`
	BucketSecs          int    `json:"bucket_secs"`
	Constant            bool   `json:"constant_recorder"`
	ModelMotionDefaults bool   `json:"model_motion_defaults"` // do not override detection thresholds in config.toml
	DeviceName          string `json:"device_name"`
	DeviceID            int    `json:"device_id"`
	MinDiskMB           uint64 `json:"min_disk_space_mb,omitempty"` // 0: 1 MB
}

func (s e2eSettings) minDisk() uint64 {
	if s.MinDiskMB == 0 {
		return 1
	}
	return s.MinDiskMB
}

func (s e2eSettings) frameSize() int {
	if s.Model == "boson" {
		return s.ResX * s.ResY * 2
	}
	return 640 + s.ResX*s.ResY*2
}

func (s e2eSettings) cam() vcam { return vcam{s.ResX, s.ResY, s.FPS} }

// header encodes the camera description exactly as the camera daemon does.
func (s e2eSettings) header() []byte {
	specs := map[string]interface{}{
		headers.XResolution: s.ResX,
		headers.YResolution: s.ResY,
		headers.FrameSize:   s.frameSize(),
		headers.Model:       s.Model,
		headers.Brand:       "flir",
		headers.FPS:         s.FPS,
		headers.Serial:      s.Serial,
		headers.Firmware:    s.Firmware,
	}
	b, err := yamlv1.Marshal(specs)
	if err != nil {
		panic(err)
	}
	return append(b, '\n')
}

// expectedMotion is the motion configuration the settings stand for (camera-model
// defaults, overridden by what the harness writes to config.toml).
func (s e2eSettings) expectedMotion() goconfig.ThermalMotion {
	m := goconfig.DefaultThermalMotion(s.Model)
	if !s.ModelMotionDefaults {
		m.DynamicThreshold = false
		m.TempThresh = 1000
		m.DeltaThresh = 50
		m.CountThresh = 1
		m.FrameCompareGap = 1
		m.UseOneDiffOnly = true
		m.WarmerOnly = false
		m.EdgePixels = 1
	}
	if s.Trigger >= 0 {
		m.TriggerFrames = s.Trigger
	}
	return m
}

func (s e2eSettings) writeConfig(confDir, outDir string) {
	var sb strings.Builder
	fmt.Fprintf(&sb, "[device]\n  id = %d\n  name = %q\n\n", s.DeviceID, s.DeviceName)
	fmt.Fprintf(&sb, "[location]\n  latitude = -36.5\n  longitude = 174.25\n  altitude = 55.0\n  accuracy = 7.0\n\n")
	fmt.Fprintf(&sb, "[windows]\n  start-recording = \"03:33\"\n  stop-recording = \"03:33\"\n\n")
	fmt.Fprintf(&sb, "[thermal-recorder]\n  output-dir = %q\n  min-disk-space-mb = %d\n  min-secs = %d\n  max-secs = %d\n  preview-secs = %d\n  constant-recorder = %v\n\n", outDir, s.minDisk(), s.Min, s.Max, s.Preview, s.Constant)
	fmt.Fprintf(&sb, "[thermal-throttler]\n  activate = %v\n  bucket-size = \"%ds\"\n  min-refill = \"24h\"\n\n", s.Throttle, s.BucketSecs)
	fmt.Fprintf(&sb, "[thermal-motion]\n")
	if !s.ModelMotionDefaults {
		fmt.Fprintf(&sb, "  dynamic-threshold = false\n  temp-thresh = 1000\n  delta-thresh = 50\n  count-thresh = 1\n  frame-compare-gap = 1\n  use-one-diff-only = true\n  warmer-only = false\n  edge-pixels = 1\n")
	}
	if s.Trigger >= 0 {
		fmt.Fprintf(&sb, "  trigger-frames = %d\n", s.Trigger)
	}
	if err := os.WriteFile(filepath.Join(confDir, "config.toml"), []byte(sb.String()), 0o644); err != nil {
		panic(err)
	}
}

// rawFrame encodes a frame in the camera's wire format.
func (s e2eSettings) rawFrame(f *cptvframe.Frame) []byte {
	if s.Model == "boson" {
		raw := make([]byte, s.frameSize())
		i := 0
		for y := range f.Pix {
			for x := range f.Pix[y] {
				binary.LittleEndian.PutUint16(raw[i:], f.Pix[y][x])
				i += 2
			}
		}
		return raw
	}
	raw := make([]byte, s.frameSize())
	put16 := func(word int, v uint16) { raw[2*word], raw[2*word+1] = byte(v>>8), byte(v) }
	put32 := func(word int, v uint32) { put16(word, uint16(v)); put16(word+1, uint16(v>>16)) }
	put32(1, uint32(f.Status.TimeOn/time.Millisecond))
	put32(20, uint32(f.Status.FrameCount))
	put16(22, f.Status.FrameMean)
	put16(24, uint16(int(f.Status.TempC*100+0.5)+27315))
	put16(29, uint16(int(f.Status.LastFFCTempC*100+0.5)+27315))
	put32(30, uint32(f.Status.LastFFCTime/time.Millisecond))
	i := 640
	for y := range f.Pix {
		for x := range f.Pix[y] {
			raw[i], raw[i+1] = byte(f.Pix[y][x]>>8), byte(f.Pix[y][x])
			i += 2
		}
	}
	return raw
}

// sceneFrame: frame number n (1-based) with the beacon pixel at the given level; border pixel carries n.
func (s e2eSettings) sceneFrame(n int, level uint16) *cptvframe.Frame {
	f := cptvframe.NewFrame(s.cam())
	for y := range f.Pix {
		for x := range f.Pix[y] {
			f.Pix[y][x] = 1500
		}
	}
	f.Pix[0][0] = uint16(100 + n)
	for y := 1; y < s.ResY-1 && y < 3; y++ {
		for x := 1; x < s.ResX-1 && x < 4; x++ {
			f.Pix[y][x] = level
		}
	}
	f.Status = cptvframe.Telemetry{TimeOn: time.Duration(600000+111*n) * time.Millisecond, LastFFCTime: 5000 * time.Millisecond, FrameCount: n, TempC: 25.25, LastFFCTempC: 24.5}
	return f
}

// ---- in-memory connection

type memConn struct {
	data  []byte
	pos   int
	cuts  map[int]bool // a read never crosses a cut offset
	one   bool         // one byte per read
	reads int
	// hooks run once when the next read starts exactly at that offset (a cut is placed there, so the
	// buffered reader asks for these bytes only after everything before them has been consumed and processed)
	hooks map[int]func()
}

func (c *memConn) Read(p []byte) (int, error) {
	if c.pos >= len(c.data) {
		return 0, io.EOF
	}
	c.reads++
	if h := c.hooks[c.pos]; h != nil {
		delete(c.hooks, c.pos)
		h()
	}
	n := len(p)
	if n > len(c.data)-c.pos {
		n = len(c.data) - c.pos
	}
	if c.one && n > 1 {
		n = 1
	}
	for k := 1; k < n; k++ {
		if c.cuts[c.pos+k] || c.hooks[c.pos+k] != nil {
			n = k
			break
		}
	}
	copy(p, c.data[c.pos:c.pos+n])
	c.pos += n
	return n, nil
}
func (c *memConn) Write(p []byte) (int, error)        { return len(p), nil }
func (c *memConn) Close() error                       { return nil }
func (c *memConn) LocalAddr() net.Addr                { return &net.UnixAddr{Name: "verif", Net: "unix"} }
func (c *memConn) RemoteAddr() net.Addr               { return &net.UnixAddr{Name: "verif", Net: "unix"} }
func (c *memConn) SetDeadline(t time.Time) error      { return nil }
func (c *memConn) SetReadDeadline(t time.Time) error  { return nil }
func (c *memConn) SetWriteDeadline(t time.Time) error { return nil }

// ---- stream items

type e2eItem struct {
	Clear bool             // the 5-byte marker
	Frame *cptvframe.Frame // else a frame
	Bad   bool             // frame with a zero pixel inside the border
	// Request: a TakeTestRecording D-Bus request arrives here (between two frames); no bytes on the socket
	Request bool
}

// ---- reference run: a real MotionProcessor driven directly

type refRec struct {
	kind   byte // 'm','c','t'
	bg     *cptvframe.Frame
	thr    uint16
	frames []*cptvframe.Frame
	closed bool
}

type refSink struct {
	kind byte
	all  *[]*refRec
	cur  *refRec
}

func (s *refSink) CheckCanRecord() error { return nil }
func (s *refSink) StartRecording(bg *cptvframe.Frame, thr uint16) error {
	s.cur = &refRec{kind: s.kind, bg: bg.CreateCopy(), thr: thr}
	*s.all = append(*s.all, s.cur)
	return nil
}
func (s *refSink) WriteFrame(f *cptvframe.Frame) error {
	s.cur.frames = append(s.cur.frames, f.CreateCopy())
	return nil
}
func (s *refSink) StopRecording() error {
	if s.cur != nil {
		s.cur.closed = true
	}
	return nil
}

func e2eParser(model string) motion.FrameParser {
	if model == "boson" {
		return convertRawBosonFrame
	}
	return lepton3.ParseRawFrame
}

func (s e2eSettings) reference(items []e2eItem) []*refRec {
	var all []*refRec
	w, _ := window.New("03:33", "03:33", 0, 0)
	rc := &recorder.RecorderConfig{MinSecs: s.Min, MaxSecs: s.Max, PreviewSecs: s.Preview, Window: *w, ConstantRecorder: s.Constant}
	mc := s.expectedMotion()
	ms := &refSink{kind: 'm', all: &all}
	var mrec recorder.Recorder = ms
	if s.Throttle {
		tc := &goconfig.ThermalThrottler{Activate: true, BucketSize: time.Duration(s.BucketSecs) * time.Second, MinRefill: 24 * time.Hour}
		mrec = throttle.NewThrottledRecorder(ms, tc, s.Min+s.Preview, nil, s.cam())
	}
	var cs *refSink
	if s.Constant {
		cs = &refSink{kind: 'c', all: &all}
	}
	ts := &refSink{kind: 't', all: &all}
	mp := motion.NewMotionProcessor(e2eParser(s.Model), &mc, rc, &goconfig.Location{}, nil, mrec, s.cam(), cs, ts)
	for _, it := range items {
		if it.Request {
			mp.StartSnapshot = true // what TakeTestRecording does to the processor
			continue
		}
		if it.Clear {
			mp.Reset(s.cam())
			continue
		}
		mp.Process(s.rawFrame(it.Frame))
	}
	return all
}

// ---- the real thing

type e2eResult struct {
	err   error
	files []string // relative paths of *.cptv, sorted by base name (= start order)
	dir   string
}

func (s e2eSettings) stream(items []e2eItem) []byte {
	b := s.header()
	for _, it := range items {
		if it.Request {
			continue
		}
		if it.Clear {
			b = append(b, []byte("clear")...)
			continue
		}
		b = append(b, s.rawFrame(it.Frame)...)
	}
	return b
}

// requestOffsets returns the stream offsets at which the Request items of the list sit.
func (s e2eSettings) requestOffsets(items []e2eItem) []int {
	var offs []int
	n := len(s.header())
	for _, it := range items {
		switch {
		case it.Request:
			offs = append(offs, n)
		case it.Clear:
			n += 5
		default:
			n += len(s.rawFrame(it.Frame))
		}
	}
	return offs
}

var frameLogIntervalFirstMin0, frameLogInterval0 = frameLogIntervalFirstMin, frameLogInterval

// e2eHooks, when set, is handed to the next connection made by runHandleConn (offset -> action).
var e2eHooks map[int]func()

// runHandleConn feeds the byte stream to the real handleConn; the caller removes res.dir.
func (s e2eSettings) runHandleConn(data []byte, cuts map[int]bool, oneByte bool) (res e2eResult, conn *memConn) {
	base, err := os.MkdirTemp("", "e2e-")
	if err != nil {
		panic(err)
	}
	confDir, outDir := filepath.Join(base, "conf"), filepath.Join(base, "out")
	os.MkdirAll(confDir, 0o755)
	os.MkdirAll(outDir, 0o755)
	s.writeConfig(confDir, outDir)
	conf, err := ParseConfig(confDir)
	if err != nil {
		panic(fmt.Sprintf("generated config.toml rejected: %v", err))
	}
	vos.Reset()
	vtime.Reset()
	// handleConn multiplies these package variables by fps on every call
	frameLogIntervalFirstMin, frameLogInterval = frameLogIntervalFirstMin0, frameLogInterval0
	processor, headerInfo = nil, nil
	conn = &memConn{data: data, cuts: cuts, one: oneByte, hooks: e2eHooks}
	e2eHooks = nil
	res.dir = base
	func() {
		defer func() {
			if p := recover(); p != nil {
				res.err = fmt.Errorf("handleConn panicked: %v", p)
			}
		}()
		res.err = handleConn(conn, conf)
	}()
	vos.CloseAll()
	for _, rel := range listTree(outDir) {
		if suffixClass(rel) == ".cptv" {
			res.files = append(res.files, filepath.Join(outDir, rel))
		}
	}
	sort.Slice(res.files, func(i, j int) bool { return filepath.Base(res.files[i]) < filepath.Base(res.files[j]) })
	return res, conn
}

// runHandleConnTwice serves two connections to the same daemon instance (one *Config, as runMain
// does): the camera reconnects, possibly as a different model. Returns the files of the second connection.
func runHandleConnTwice(s1, s2 e2eSettings, d1, d2 []byte) (res e2eResult) {
	base, err := os.MkdirTemp("", "e2e2-")
	if err != nil {
		panic(err)
	}
	confDir, outDir := filepath.Join(base, "conf"), filepath.Join(base, "out")
	os.MkdirAll(confDir, 0o755)
	os.MkdirAll(outDir, 0o755)
	s1.writeConfig(confDir, outDir)
	conf, err := ParseConfig(confDir)
	if err != nil {
		panic(err)
	}
	vos.Reset()
	vtime.Reset()
	frameLogIntervalFirstMin, frameLogInterval = frameLogIntervalFirstMin0, frameLogInterval0
	processor, headerInfo = nil, nil
	res.dir = base
	before := map[string]bool{}
	func() {
		defer func() {
			if p := recover(); p != nil {
				res.err = fmt.Errorf("handleConn panicked: %v", p)
			}
		}()
		if err := handleConn(&memConn{data: d1}, conf); err != io.EOF {
			res.err = fmt.Errorf("first connection: %v", err)
			return
		}
		for _, rel := range listTree(outDir) {
			before[rel] = true
		}
		res.err = handleConn(&memConn{data: d2}, conf)
	}()
	vos.CloseAll()
	for _, rel := range listTree(outDir) {
		if suffixClass(rel) == ".cptv" && !before[rel] {
			res.files = append(res.files, filepath.Join(outDir, rel))
		}
	}
	sort.Slice(res.files, func(i, j int) bool { return filepath.Base(res.files[i]) < filepath.Base(res.files[j]) })
	return res
}

// compareWithReference checks the files against the predicted recordings.
func (s e2eSettings) compareWithReference(res e2eResult, ref []*refRec) (string, string) {
	var want []*refRec
	for _, r := range ref {
		if r.closed {
			want = append(want, r)
		}
	}
	if len(want) != len(res.files) {
		var names []string
		for _, f := range res.files {
			names = append(names, filepath.Base(filepath.Dir(f))+"/"+filepath.Base(f))
		}
		kinds := ""
		for _, r := range want {
			kinds += string(r.kind)
		}
		return "files-vs-predicted-recordings:count", fmt.Sprintf("%d finished recordings on disk %v, the settings predict %d (%s)", len(res.files), names, len(want), kinds)
	}
	for i, r := range want {
		f := res.files[i]
		inConst := filepath.Base(filepath.Dir(f)) == "constant-recordings"
		if inConst != (r.kind == 'c') {
			return "files-vs-predicted-recordings:placement", fmt.Sprintf("recording %d (%c) ended up in %s", i+1, r.kind, filepath.Dir(f))
		}
		d, err := decodeAll(f)
		if err != nil {
			return "finished-file-does-not-decode", fmt.Sprintf("%s: %v", filepath.Base(f), err)
		}
		if len(d.frames) != len(r.frames)+1 {
			return "files-vs-predicted-recordings:length", fmt.Sprintf("recording %d (%c) %s holds %d frames + background, predicted %d", i+1, r.kind, filepath.Base(f), len(d.frames)-1, len(r.frames))
		}
		if !d.frames[0].Status.BackgroundFrame || !samePix(d.frames[0], r.bg) {
			return "background-frame", fmt.Sprintf("recording %d: first decoded frame is not the background frame in force at the trigger", i+1)
		}
		for k, fr := range r.frames {
			g := d.frames[k+1]
			if !samePix(g, fr) {
				return "frame-pixels", fmt.Sprintf("recording %d (%c) frame %d (camera frame %d) differs pixel-wise from what was sent", i+1, r.kind, k+1, fr.Pix[0][0]-100)
			}
			if g.Status.TimeOn != fr.Status.TimeOn || g.Status.LastFFCTime != fr.Status.LastFFCTime || float32(g.Status.TempC) != float32(fr.Status.TempC) || float32(g.Status.LastFFCTempC) != float32(fr.Status.LastFFCTempC) {
				return "frame-telemetry", fmt.Sprintf("recording %d frame %d telemetry %+v, sent %+v", i+1, k+1, g.Status, fr.Status)
			}
		}
		// header
		h := d.r
		mc := s.expectedMotion()
		thr := r.thr
		wantYAML := fmt.Sprintf("%striggeredthresh: %d\n", mustYAML(mc), thr)
		switch {
		case h.DeviceName() != s.DeviceName:
			return "header:device-name", fmt.Sprintf("device name %q, configured %q", h.DeviceName(), s.DeviceName)
		case h.DeviceID() != s.DeviceID:
			return "header:device-id", fmt.Sprintf("device id %d, configured %d", h.DeviceID(), s.DeviceID)
		case h.BrandName() != "flir" || h.ModelName() != s.Model:
			return "header:brand-model", fmt.Sprintf("brand/model %q/%q, camera said flir/%q", h.BrandName(), h.ModelName(), s.Model)
		case h.SerialNumber() != s.Serial:
			return "header:serial", fmt.Sprintf("serial %d, camera said %d", h.SerialNumber(), s.Serial)
		case h.FirmwareVersion() != s.Firmware:
			return "header:firmware", fmt.Sprintf("firmware %q, camera said %q", h.FirmwareVersion(), s.Firmware)
		case h.ResX() != s.ResX || h.ResY() != s.ResY:
			return "header:resolution", fmt.Sprintf("resolution %dx%d, camera said %dx%d", h.ResX(), h.ResY(), s.ResX, s.ResY)
		case h.FPS() != s.FPS:
			return "header:fps", fmt.Sprintf("fps %d, camera said %d", h.FPS(), s.FPS)
		case h.PreviewSecs() != s.Preview:
			return "header:preview-secs", fmt.Sprintf("preview-secs %d, configured %d", h.PreviewSecs(), s.Preview)
		case h.Latitude() != -36.5 || h.Longitude() != 174.25 || h.Altitude() != 55 || h.Accuracy() != 7:
			return "header:location", fmt.Sprintf("location %v,%v alt %v acc %v; configured -36.5,174.25 alt 55 acc 7", h.Latitude(), h.Longitude(), h.Altitude(), h.Accuracy())
		case h.MotionConfig() != wantYAML:
			return "header:motion-config", fmt.Sprintf("motion config %q, in force %q", h.MotionConfig(), wantYAML)
		}
	}
	return "", ""
}

var errNoFiles = errors.New("no files")
