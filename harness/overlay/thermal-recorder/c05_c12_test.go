package main

import (
	"encoding/json"
	"fmt"
	"io"
	"os"
	"path/filepath"
	"strings"
	"testing"

	goconfig "github.com/TheCacophonyProject/go-config"
	"github.com/TheCacophonyProject/thermal-recorder/motion"
	"github.com/TheCacophonyProject/thermal-recorder/recorder"
	"github.com/TheCacophonyProject/window"

	"verifkit/ev"
	"verifkit/vos"
	"verifkit/vtime"
)

// ---------------------------------------------------------------- C05 (c): main.go wiring of the throttle

type c05cCase struct {
	S e2eSettings `json:"settings"`
	N int         `json:"frames"`
}

func runC05c(c c05cCase) (string, string, int) {
	return guard3("C05", func() (string, string, int) { return runC05c0(c) })
}

func runC05c0(c c05cCase) (string, string, int) {
	s := c.S
	var items []e2eItem
	level := uint16(2000)
	for n := 1; n <= c.N; n++ { // continuous motion
		if level == 2000 {
			level = 3000
		} else {
			level = 2000
		}
		items = append(items, e2eItem{Frame: s.sceneFrame(n, level)})
	}
	res, _ := s.runHandleConn(s.stream(items), nil, false)
	defer os.RemoveAll(res.dir)
	if res.err != io.EOF {
		return "C05:wiring:connection-end", fmt.Sprintf("%+v: handleConn returned %v", s, res.err), 0
	}
	stored := 0
	for _, f := range res.files {
		d, err := decodeAll(f)
		if err != nil {
			return "C05:wiring:file-does-not-decode", err.Error(), 0
		}
		stored += len(d.frames) - 1
	}
	// independent of any reference: with min-refill 24 h the refill over this run is < 1 frame
	if s.Throttle {
		if limit := s.BucketSecs*s.FPS + 2; stored > limit {
			return "C05:wiring:bucket-exceeded", fmt.Sprintf("%+v: %d frames of continuous motion stored %d frames through the motion recorder; bucket is %d frames (+2 tolerance, refill negligible)", s, c.N, stored, s.BucketSecs*s.FPS), stored
		}
	}
	if sig, msg := s.compareWithReference(res, s.reference(items)); sig != "" {
		return "C05:wiring:" + sig, fmt.Sprintf("%+v, %d frames of continuous motion: %s", s, c.N, msg), stored
	}
	return "", "", stored
}

func c05cReplay(cj []byte) []ev.Violation {
	var c c05cCase
	if err := json.Unmarshal(cj, &c); err != nil {
		panic(err)
	}
	if sig, msg, _ := runC05c(c); sig != "" {
		return []ev.Violation{{Sig: sig, Msg: msg, Case: c}}
	}
	return nil
}

func TestVerifC05(t *testing.T) {
	quiet()
	if replayOr("C05", c05cReplay) {
		return
	}
	r := ev.NewRun("C05", "overlay cmd/thermal-recorder TestVerifC05 (wiring stage)")
	r.Rerun = c05cReplay
	w := r.Serial()
	// (min, preview, bucket): min+preview <= bucket; min <= bucket < min+preview; preview <= bucket < min+preview; bucket < both
	for _, act := range []bool{true, false} {
		for _, mpb := range [][3]int{{1, 1, 4}, {2, 2, 3}, {1, 3, 3}, {3, 1, 3}, {2, 2, 1}, {1, 0, 2}, {0, 1, 2}} {
			s := e2eSettings{Model: "boson", ResX: 5, ResY: 4, FPS: 2, Serial: 1, Firmware: "1.1.1", Min: mpb[0], Max: mpb[0] + 2, Preview: mpb[1], Trigger: 1, Throttle: act, BucketSecs: mpb[2], DeviceName: "c05", DeviceID: 2}
			c := c05cCase{S: s, N: 60}
			sig, msg, stored := runC05c(c)
			w.Evaluations++
			w.Nontrivial++
			w.States++
			w.Transitions += 60
			w.Outcome(ev.Hash(act, mpb, stored))
			if sig != "" {
				w.Violate(sig, msg, c, 1)
			}
			if w.WantSample() {
				w.Sample(map[string]interface{}{"settings": s, "frames": 60, "frames_stored_through_motion_recorder": stored})
			}
		}
	}
	r.Rule = "wiring of the throttle in main.go, end to end through the real handleConn: {activate on, off} x 7 relations of (min-secs, preview-secs, bucket-size), 60 frames of continuous motion, min-refill 24 h; frames stored must respect the bucket (independent bound) and equal the recordings predicted by a real ThrottledRecorder built by the harness with min+preview as minimum length. Non-trivial = every case."
	finish(t, r)
}

// ---------------------------------------------------------------- C12: the real file recorders behind the processor

type c12rCase struct {
	Events string `json:"events"`     // 1 motion frame, 0 still frame, B bad frame, R reset, T test-recording request
	FailOp int    `json:"fail_fs_op"` // the k-th file-system operation returns an I/O error (0 = none)
}

// runC12r drives a real MotionProcessor whose three sinks are real CPTVFileRecorders.
func runC12r(c c12rCase) (string, string, int) {
	return guard3("C12", func() (string, string, int) { return runC12r0(c) })
}

func runC12r0(c c12rCase) (sig, msg string, nops int) {
	dir, err := os.MkdirTemp("", "c12r-")
	if err != nil {
		panic(err)
	}
	defer os.RemoveAll(dir)
	vos.Reset()
	vtime.Reset()
	defer vos.CloseAll()
	if c.FailOp > 0 {
		vos.ArmFail(c.FailOp)
	}
	s := e2eSettings{Model: "boson", ResX: 5, ResY: 4, FPS: 1}
	conf := testConfig(dir)
	conf.Motion = s.expectedMotion()
	conf.Motion.TriggerFrames = 1
	w, _ := window.New("03:33", "03:33", 0, 0)
	rc := &recorder.RecorderConfig{MinSecs: 1, MaxSecs: 2, PreviewSecs: 1, Window: *w, ConstantRecorder: true}
	mrec := newRec(conf, s.cam())
	crec := newRec(conf, s.cam())
	crec.SetAsConstantRecorder()
	trec := newRec(conf, s.cam())
	mp := motion.NewMotionProcessor(convertRawBosonFrame, &conf.Motion, rc, &goconfig.Location{}, nil, mrec, s.cam(), crec, trec)
	level := uint16(2000)
	n := 0
	events := c.Events + "R000" + "1" + "000" // fault-free tail: later motion must be recorded normally
	tailStart := len(c.Events)
	finishedBefore := 0
	for i, ch := range events {
		if i == tailStart {
			vos.ArmFail(0)
			for _, f := range listTree(dir) {
				if suffixClass(f) == ".cptv" && !strings.HasPrefix(f, "constant-recordings") {
					finishedBefore++
				}
			}
		}
		var perr interface{}
		func() {
			defer func() { perr = recover() }()
			switch ch {
			case 'R':
				mp.Reset(s.cam())
			case 'T':
				mp.StartSnapshot = true
			default:
				n++
				if ch == '1' {
					if level == 2000 {
						level = 3000
					} else {
						level = 2000
					}
				}
				f := s.sceneFrame(n, level)
				if ch == 'B' {
					f.Pix[1][1] = 0
				}
				mp.Process(s.rawFrame(f))
			}
		}()
		if perr != nil {
			return "C12:real-recorder:panic", fmt.Sprintf("events %q, file-system op %d failing: frame processing panicked at event %d (%c): %v", c.Events, c.FailOp, i+1, ch, perr), len(vos.Ops())
		}
	}
	nops = len(vos.Ops())
	finished := 0
	for _, f := range listTree(dir) {
		if suffixClass(f) == ".cptv" && !strings.HasPrefix(f, "constant-recordings") {
			// (a file finished while an I/O error was being injected may be corrupt: CPTVFileRecorder ignores
			// errors from closing the writer. No listed property covers I/O faults on the file content -
			// C10 is about kills, C11 about fault-free runs - so it is only noted in DESIGN.md.)
			if c.FailOp == 0 {
				if _, err := decodeAll(filepath.Join(dir, f)); err != nil {
					return "C12:real-recorder:finished-file-does-not-decode", fmt.Sprintf("events %q: %s: %v", c.Events, f, err), nops
				}
			}
			finished++
		}
	}
	if finished <= finishedBefore {
		return "C12:real-recorder:later-motion-not-recorded", fmt.Sprintf("events %q, file-system op %d failing: the motion after the failure produced no finished recording", c.Events, c.FailOp), nops
	}
	return "", "", nops
}

func c12rReplay(cj []byte) []ev.Violation {
	var c c12rCase
	if err := json.Unmarshal(cj, &c); err != nil {
		panic(err)
	}
	if sig, msg, _ := runC12r(c); sig != "" {
		return []ev.Violation{{Sig: sig, Msg: msg, Case: c}}
	}
	return nil
}

func TestVerifC12(t *testing.T) {
	quiet()
	if replayOr("C12", c12rReplay) {
		return
	}
	r := ev.NewRun("C12", "overlay cmd/thermal-recorder TestVerifC12 (real file recorders)")
	r.Rerun = c12rReplay
	w := r.Serial()
	L := 3
	if r.Thorough() {
		L = 4
	}
	var strs []string
	var rec func(cur string)
	rec = func(cur string) {
		if len(cur) == L {
			strs = append(strs, cur)
			return
		}
		for _, ch := range "10BRT" {
			rec(cur + string(ch))
		}
	}
	rec("")
	total := 0
	for _, evs := range strs {
		c := c12rCase{Events: evs}
		sig, msg, n := runC12r(c)
		w.Evaluations++
		w.States++
		w.Transitions += int64(len(evs))
		if sig != "" {
			w.Violate(sig, msg, c, len(evs))
			continue
		}
		// every placement of one failing file-system operation (quick: strings that contain a bad frame, a request or a reset-during-recording)
		for k := 1; k <= n; k++ {
			c := c12rCase{Events: evs, FailOp: k}
			sig, msg, _ := runC12r(c)
			w.Evaluations++
			w.Nontrivial++
			w.States++
			w.Transitions += int64(len(evs))
			total++
			w.Outcome(ev.Hash(sig, k, evs))
			if sig != "" {
				w.Violate(sig, msg, c, len(evs)+1)
			}
		}
		if w.WantSample() {
			w.Sample(map[string]interface{}{"events": evs, "file_system_operations": n, "each_failed_once": true})
		}
	}
	r.Bounds["event_strings"] = len(strs)
	r.Bounds["fault_placements"] = total
	r.Rule = fmt.Sprintf("real MotionProcessor (Boson parser) with three real CPTVFileRecorders (motion, continuous, test) on a temp directory: every event string of length %d over {1,0,B,R,T}, fault-free and with every single file-system operation (create, write, seek, close, rename, remove, mkdir; numbered by the os->vos overlay) returning an I/O error; Process/Reset must never panic (a write to a closed recorder is a nil dereference here), and the fault-free tail (reset, still frames, motion) must produce a finished recording. Non-trivial = run with an injected I/O error.", L)
	finish(t, r)
}
