package main

import (
	"bufio"
	"bytes"
	"encoding/json"
	"fmt"
	"go/ast"
	"go/parser"
	"go/token"
	"io"
	"os"
	"path/filepath"
	"sort"
	"strings"
	"testing"
	"time"

	"github.com/TheCacophonyProject/thermal-recorder/headers"

	"verifkit/ev"
)

// C14 — frame socket: header round-trips, frames delivered once, 'clear' resets.

type c14Case struct {
	Stage string      `json:"stage"` // "header", "stream", "static"
	S     e2eSettings `json:"settings"`
	// header stage
	Truncate int `json:"truncate_at,omitempty"` // -1: complete header
	// stream stage: arrangement of frames (F) and markers (C), segmentation
	Items string       `json:"items,omitempty"`
	S0    *e2eSettings `json:"first_connection_settings,omitempty"` // reconnect stage
	Cuts  []int        `json:"cuts,omitempty"`
	One   bool         `json:"one_byte_reads,omitempty"`
	// clear stage: what the marker must do, stated without the processor as reference
	Kind string `json:"kind,omitempty"` // "ends-recording" | "restarts-detection"
	K    int    `json:"marker_after_frame,omitempty"`
	N    int    `json:"frames,omitempty"`
}

var c14Sentinel = []byte{0xA5, 0x5A, 0xC3, 0x3C, 0x0A, 0x0A, 0x20, 0x0A}

type timeoutReader struct {
	r     io.Reader
	reads int
}

func (t *timeoutReader) Read(p []byte) (int, error) {
	t.reads++
	if t.reads > 100000 {
		panic("reader polled 100000 times: ReadHeaderInfo does not terminate")
	}
	return t.r.Read(p)
}

func runC14Header(c c14Case) (string, string) {
	return guard2("C14", func() (string, string) { return runC14Header0(c) })
}

func runC14Header0(c c14Case) (string, string) {
	hdr := c.S.header()
	data := append(append([]byte{}, hdr...), c14Sentinel...)
	if c.Truncate >= 0 {
		data = hdr[:c.Truncate]
	}
	rd := bufio.NewReader(&timeoutReader{r: bytes.NewReader(data)})
	h, err := headers.ReadHeaderInfo(rd)
	if c.Truncate >= 0 {
		if err == nil || h != nil {
			return "C14:header:truncated-header-accepted", fmt.Sprintf("header %q cut after %d of %d bytes: got (%+v, %v), expected (nil, error)", hdr, c.Truncate, len(hdr), h, err)
		}
		return "", ""
	}
	if err != nil {
		return "C14:header:rejected", fmt.Sprintf("header %q rejected: %v", hdr, err)
	}
	s := c.S
	if h.ResX() != s.ResX || h.ResY() != s.ResY || h.FPS() != s.FPS || h.FrameSize() != s.frameSize() || h.Brand() != "flir" || h.Model() != s.Model || h.CameraSerial() != s.Serial || h.Firmware() != s.Firmware {
		return "C14:header:field-does-not-round-trip", fmt.Sprintf("header %q parsed as %dx%d fps %d framesize %d %s/%s serial %d firmware %q; sent %dx%d fps %d framesize %d flir/%s serial %d firmware %q",
			hdr, h.ResX(), h.ResY(), h.FPS(), h.FrameSize(), h.Brand(), h.Model(), h.CameraSerial(), h.Firmware(), s.ResX, s.ResY, s.FPS, s.frameSize(), s.Model, s.Serial, s.Firmware)
	}
	rest, _ := io.ReadAll(rd)
	if !bytes.Equal(rest, c14Sentinel) {
		return "C14:header:consumed-beyond-blank-line", fmt.Sprintf("after the header the reader yields % x, expected the sentinel % x", rest, c14Sentinel)
	}
	return "", ""
}

func c14Items(s e2eSettings, arr string) []e2eItem {
	var items []e2eItem
	n := 0
	level := uint16(2000)
	for _, ch := range arr {
		if ch == 'C' {
			items = append(items, e2eItem{Clear: true})
			continue
		}
		n++
		if level == 2000 {
			level = 3000
		} else {
			level = 2000
		}
		items = append(items, e2eItem{Frame: s.sceneFrame(n, level)})
	}
	return items
}

func runC14Stream(c c14Case) (string, string) {
	return guard2("C14", func() (string, string) { return runC14Stream0(c) })
}

func runC14Stream0(c c14Case) (string, string) {
	items := c14Items(c.S, c.Items)
	data := c.S.stream(items)
	cuts := map[int]bool{}
	for _, k := range c.Cuts {
		cuts[k] = true
	}
	res, _ := c.S.runHandleConn(data, cuts, c.One)
	defer os.RemoveAll(res.dir)
	if res.err != io.EOF {
		return "C14:stream:connection-end", fmt.Sprintf("items %s cuts %v: handleConn returned %v, expected io.EOF after the last complete frame", c.Items, c.Cuts, res.err)
	}
	ref := c.S.reference(items)
	if sig, msg := c.S.compareWithReference(res, ref); sig != "" {
		return "C14:stream:" + sig, fmt.Sprintf("items %s (F frame, C clear marker) read in segments cut at %v (one-byte reads: %v): %s", c.Items, c.Cuts, c.One, msg)
	}
	return "", ""
}

// static binding of the two daemons (not model checking: a syntactic extraction)
func runC14Static() (string, string) {
	repo := os.Getenv("VERIF_REPO")
	if repo == "" {
		repo = "/repo"
	}
	consts := func(file string) (map[string]string, *ast.File) {
		fset := token.NewFileSet()
		f, err := parser.ParseFile(fset, filepath.Join(repo, file), nil, 0)
		if err != nil {
			panic(err)
		}
		out := map[string]string{}
		ast.Inspect(f, func(n ast.Node) bool {
			if vs, ok := n.(*ast.ValueSpec); ok {
				for i, name := range vs.Names {
					if i < len(vs.Values) {
						if bl, ok := vs.Values[i].(*ast.BasicLit); ok {
							out[name.Name] = bl.Value
						}
					}
				}
			}
			return true
		})
		return out, f
	}
	lc, lf := consts("cmd/leptond/main.go")
	rc, _ := consts("cmd/thermal-recorder/main.go")
	if lc["clearBuffer"] == "" || lc["clearBuffer"] != rc["clearBuffer"] {
		return "C14:static:marker-differs", fmt.Sprintf("leptond clearBuffer=%s, thermal-recorder clearBuffer=%s", lc["clearBuffer"], rc["clearBuffer"])
	}
	if rc["clearBuffer"] != `"clear"` || clearBuffer != "clear" {
		return "C14:static:marker-not-5-bytes", fmt.Sprintf("marker is %s; the frame loop reads exactly 5 bytes to recognise it", rc["clearBuffer"])
	}
	// keys of the camera description the camera daemon sends
	var keys []string
	ast.Inspect(lf, func(n ast.Node) bool {
		fd, ok := n.(*ast.FuncDecl)
		if !ok || fd.Name.Name != "sendCameraSpecs" {
			return true
		}
		ast.Inspect(fd, func(m ast.Node) bool {
			if kv, ok := m.(*ast.KeyValueExpr); ok {
				if se, ok := kv.Key.(*ast.SelectorExpr); ok {
					if x, ok := se.X.(*ast.Ident); ok && x.Name == "headers" {
						keys = append(keys, se.Sel.Name)
					}
				}
			}
			return true
		})
		return false
	})
	sort.Strings(keys)
	want := []string{"Brand", "FPS", "Firmware", "FrameSize", "Model", "Serial", "XResolution", "YResolution"}
	if strings.Join(keys, ",") != strings.Join(want, ",") {
		return "C14:static:header-keys", fmt.Sprintf("leptond sends keys %v, the recorder reads %v", keys, want)
	}
	return "", ""
}

// runC14Reconnect: a first connection (3 frames) and then the stream under test on the same daemon instance.
func runC14Reconnect(c c14Case) (string, string) {
	return guard2("C14", func() (string, string) { return runC14Reconnect0(c) })
}

func runC14Reconnect0(c c14Case) (string, string) {
	s1 := *c.S0
	items := c14Items(c.S, c.Items)
	res := runHandleConnTwice(s1, c.S, s1.stream(c14Items(s1, "FFF")), c.S.stream(items))
	defer os.RemoveAll(res.dir)
	if res.err != io.EOF {
		return "C14:reconnect:connection-end", fmt.Sprintf("second connection (%dx%d after %dx%d) items %s: handleConn returned %v, expected io.EOF", c.S.ResX, c.S.ResY, s1.ResX, s1.ResY, c.Items, res.err)
	}
	if sig, msg := c.S.compareWithReference(res, c.S.reference(items)); sig != "" {
		return "C14:reconnect:" + sig, fmt.Sprintf("second connection (%dx%d frames after a %dx%d connection on the same daemon) items %s: %s", c.S.ResX, c.S.ResY, s1.ResX, s1.ResY, c.Items, msg)
	}
	return "", ""
}

func runC14(c c14Case) (string, string) {
	switch c.Stage {
	case "reconnect":
		return runC14Reconnect(c)
	case "header":
		return runC14Header(c)
	case "stream":
		return runC14Stream(c)
	case "clear":
		return runC14Clear(c)
	}
	return runC14Static()
}

// runC14Clear: "each 'clear' marker is a camera reset that ends the current recording and restarts
// detection" - absolute expectations (the stream stages compare with a MotionProcessor driven by the
// harness, which would share a defect of MotionProcessor.Reset):
//
//	ends-recording:     motion in every frame, marker after frame K while the recording is open - no file
//	                    may hold both frame K and frame K+1 (and some file must hold frame K);
//	restarts-detection: a still scene whose level differs before and after the marker - nothing may be
//	                    recorded (the first frame after a reset is never compared with an earlier one),
//	                    while the same stream without the marker is recorded (control).
var c14ClearControlOK int

func runC14Clear(c c14Case) (string, string) {
	return guard2("C14", func() (string, string) { return runC14Clear0(c) })
}

func frameIDs(path string) ([]int, error) {
	d, err := decodeAll(path)
	if err != nil {
		return nil, err
	}
	var ids []int
	for _, f := range d.frames {
		if f.Status.BackgroundFrame {
			continue
		}
		ids = append(ids, int(f.Pix[0][0])-100)
	}
	return ids, nil
}

func runC14Clear0(c c14Case) (string, string) {
	s := c.S
	build := func(withMarker bool) []e2eItem {
		var items []e2eItem
		level := uint16(2000)
		for n := 1; n <= c.N; n++ {
			if c.Kind == "ends-recording" {
				if level == 2000 {
					level = 3000
				} else {
					level = 2000
				}
			} else if n > c.K {
				level = 3000
			}
			items = append(items, e2eItem{Frame: s.sceneFrame(n, level)})
			if n == c.K && withMarker {
				items = append(items, e2eItem{Clear: true})
			}
		}
		return items
	}
	run := func(items []e2eItem) ([][]int, string) {
		res, _ := s.runHandleConn(s.stream(items), nil, false)
		defer os.RemoveAll(res.dir)
		if res.err != io.EOF {
			return nil, fmt.Sprintf("handleConn returned %v", res.err)
		}
		var all [][]int
		for _, f := range res.files {
			ids, err := frameIDs(f)
			if err != nil {
				return nil, fmt.Sprintf("%s: %v", filepath.Base(f), err)
			}
			all = append(all, ids)
		}
		return all, ""
	}
	files, errMsg := run(build(true))
	if errMsg != "" {
		return "C14:clear:connection-end", errMsg
	}
	if c.Kind == "ends-recording" {
		open := false
		for _, ids := range files {
			hasK, hasK1 := false, false
			for _, id := range ids {
				hasK = hasK || id == c.K
				hasK1 = hasK1 || id == c.K+1
			}
			open = open || hasK
			if hasK && hasK1 {
				return "C14:clear:recording-continues-across-marker", fmt.Sprintf("%d frames of motion, 'clear' after frame %d: a recording holds frames %v - the marker did not end it", c.N, c.K, ids)
			}
		}
		if open {
			c14ClearControlOK++
		}
		return "", ""
	}
	if len(files) != 0 {
		return "C14:clear:detection-not-restarted", fmt.Sprintf("still scene at level 2000, 'clear' after frame %d, still scene at level 3000: recordings %v were made - frames were compared across the camera reset", c.K, files)
	}
	if ctl, _ := run(build(false)); len(ctl) > 0 {
		c14ClearControlOK++
	}
	return "", ""
}

func c14Replay(cj []byte) []ev.Violation {
	var c c14Case
	if err := json.Unmarshal(cj, &c); err != nil {
		panic(err)
	}
	if sig, msg := runC14(c); sig != "" {
		return []ev.Violation{{Sig: sig, Msg: msg, Case: c}}
	}
	return nil
}

func TestVerifC14(t *testing.T) {
	quiet()
	if replayOr("C14", c14Replay) {
		return
	}
	r := ev.NewRun("C14", "overlay cmd/thermal-recorder TestVerifC14")
	r.Rerun = c14Replay
	w := r.Serial()
	try := func(c c14Case, size int) (string, string) {
		sig, msg := "", ""
		func() {
			defer func() {
				if p := recover(); p != nil {
					sig, msg = "C14:hang-or-panic", fmt.Sprint(p)
				}
			}()
			sig, msg = runC14(c)
		}()
		w.Evaluations++
		w.States++
		w.Transitions += int64(size)
		w.Outcome(ev.Hash(c.Stage, sig == "", c.Items, c.Truncate >= 0))
		if sig != "" {
			w.Violate(sig, msg, c, size)
		}
		return sig, msg
	}
	// (a) header round trip and every truncation point
	hdrs := 0
	for _, res := range [][2]int{{160, 120}, {640, 512}, {4, 3}} {
		for _, fps := range []int{1, 9, 60} {
			for _, model := range []string{"lepton3", "lepton3.5", "boson"} {
				for _, serial := range []int{0, 1, 12345, 1<<31 - 1} {
					for _, fw := range []string{"0.0.0", "1.2.3", "255.255.255", "1.0: beta #2", "'quoted' \"x\"", "- dash", "true", "007", ""} {
						s := e2eSettings{Model: model, ResX: res[0], ResY: res[1], FPS: fps, Serial: serial, Firmware: fw}
						c := c14Case{Stage: "header", S: s, Truncate: -1}
						try(c, 1)
						hdrs++
						w.Nontrivial++
						if serial == 12345 && fps == 9 {
							n := len(s.header())
							for k := 0; k < n; k++ {
								c.Truncate = k
								try(c, 1)
								w.Nontrivial++
							}
						}
						if w.WantSample() {
							w.Sample(map[string]interface{}{"stage": "header", "encoded": string(s.header())})
						}
					}
				}
			}
		}
	}
	r.Bounds["camera_descriptions"] = hdrs
	// (c) both daemons agree on marker and keys
	try(c14Case{Stage: "static"}, 1)
	// (b) stream through the real handleConn
	s := e2eSettings{Model: "boson", ResX: 5, ResY: 4, FPS: 1, Serial: 77, Firmware: "9.8.7", Min: 1, Max: 2, Preview: 1, Trigger: 1, Constant: true, DeviceName: "c14", DeviceID: 3, BucketSecs: 600}
	nFrames := []int{3}
	deadline := 20 * time.Minute // quick does a fixed amount of work; the deadline is only a safety net
	if r.Thorough() {
		nFrames = []int{3, 6}
		deadline = 25 * time.Minute
	}
	r.SetDeadline(deadline)
	hl := len(s.header())
	fsz := s.frameSize()
	var arrangements []string
	for _, n := range nFrames {
		// at most two markers, at any gap (before the first frame ... after the last)
		var rec func(pos int, left int, cur string)
		rec = func(pos, left int, cur string) {
			if pos == n {
				for k := 0; k <= left; k++ {
					arrangements = append(arrangements, cur+strings.Repeat("C", k))
				}
				return
			}
			for k := 0; k <= left; k++ {
				rec(pos+1, left-k, cur+strings.Repeat("C", k)+"F")
			}
		}
		rec(0, 2, "")
	}
	r.Bounds["arrangements"] = len(arrangements)
	streamRuns := 0
	for _, arr := range arrangements {
		total := hl + strings.Count(arr, "F")*fsz + strings.Count(arr, "C")*5
		// byte offsets of interest for pairs of cuts: around the header end and every marker
		var hot []int
		off := hl
		hot = append(hot, hl-2, hl-1, hl, hl+1)
		for _, ch := range arr {
			if ch == 'C' {
				for d := -1; d <= 6; d++ {
					hot = append(hot, off+d)
				}
				off += 5
			} else {
				off += fsz
			}
		}
		base := c14Case{Stage: "stream", S: s, Items: arr}
		run := func(c c14Case) {
			if r.Expired() {
				return
			}
			try(c, len(arr))
			streamRuns++
			w.Nontrivial++
			if w.WantSample() && len(c.Cuts) == 2 {
				w.Sample(map[string]interface{}{"stage": "stream", "items": c.Items, "cuts": c.Cuts})
			}
		}
		run(base) // greedy reads
		one := base
		one.One = true
		run(one)
		for k := 1; k < total; k++ { // every single cut point
			c := base
			c.Cuts = []int{k}
			run(c)
		}
		for i := 0; i < len(hot); i++ { // every pair of cut points around markers / header end
			for j := i + 1; j < len(hot); j++ {
				if hot[i] <= 0 || hot[j] >= total || hot[i] == hot[j] {
					continue
				}
				c := base
				c.Cuts = []int{hot[i], hot[j]}
				run(c)
			}
		}
	}
	// thorough: EVERY pair of cut points (not only those around markers) for one arrangement with a marker between two frames
	if r.Thorough() {
		arr := "FCF"
		total := hl + 2*fsz + 5
		allPairs := 0
		for k1 := 1; k1 < total && !r.Expired(); k1++ {
			for k2 := k1 + 1; k2 < total; k2++ {
				try(c14Case{Stage: "stream", S: s, Items: arr, Cuts: []int{k1, k2}}, len(arr))
				streamRuns++
				allPairs++
				w.Nontrivial++
			}
		}
		r.Bounds["all_cut_pairs_FCF"] = allPairs
	}
	// (b3) what a 'clear' marker must do, stated absolutely
	clearCases := 0
	sc := e2eSettings{Model: "boson", ResX: 5, ResY: 4, FPS: 1, Serial: 77, Firmware: "9.8.7", Min: 2, Max: 12, Preview: 1, Trigger: 1, DeviceName: "c14", DeviceID: 3, BucketSecs: 600}
	for _, kind := range []string{"ends-recording", "restarts-detection"} {
		for k := 2; k <= 7; k++ {
			try(c14Case{Stage: "clear", S: sc, Kind: kind, K: k, N: 10}, 10)
			clearCases++
			streamRuns++
			w.Nontrivial++
		}
	}
	r.Bounds["clear_semantics_cases"] = clearCases
	r.Extra["clear_semantics_cases_with_control_satisfied"] = c14ClearControlOK
	// (b2) the camera reconnects to the same daemon instance with another frame size (larger first, then smaller,
	// and the reverse); markers in the second stream
	big := s
	big.ResX, big.ResY = 9, 7
	for _, pair := range [][2]e2eSettings{{big, s}, {s, big}, {s, s}} {
		for _, arr := range []string{"FFF", "FCFF", "FFCFCF"} {
			c := c14Case{Stage: "reconnect", S0: &pair[0], S: pair[1], Items: arr}
			try(c, len(arr))
			streamRuns++
			w.Nontrivial++
		}
	}
	r.Bounds["stream_runs"] = streamRuns
	r.Rule = "(a) headers.ReadHeaderInfo on a shared bufio.Reader: every camera description of the product resolutions x fps {1,9,60} x models x serials {0,1,12345,2^31-1} x firmware strings (incl. YAML-hostile ones), encoded exactly as the camera daemon does (yaml.v1 Marshal of the map keyed by the headers constants + newline), with a sentinel after the blank line, and EVERY truncation point of a subset; (b) the real handleConn on an in-memory connection: every arrangement of 3 (and 6 thorough) frames with <=2 'clear' markers at any gap, read greedily, one byte at a time, with every single cut point of the byte stream and every pair of cut points around the header end and the markers (thorough: for the arrangement frame-marker-frame EVERY pair of cut points); files produced are compared with the recordings predicted by driving a real MotionProcessor directly (frames once, in order, reset at each marker); (b3) absolute 'clear' semantics (the reference of (b) shares MotionProcessor.Reset): with motion in every frame and the marker after frame K=2..7 no file may hold both frame K and K+1; a still scene whose level changes only across the marker must not be recorded, while the same stream without the marker is (control); (b2) the camera reconnecting to the same daemon instance with a larger/smaller/equal frame size; (c) static extraction: marker constant and header keys of both daemons. Non-trivial = every case."
	r.Assumptions = []string{"sendCameraSpecs itself needs camera hardware; its encoder is reproduced (3 lines) and bound to the source by the static key/marker extraction", "serial numbers beyond the platform int are out of scope"}
	finish(t, r)
}
