package main

import (
	"os"

	"verifharness/checks"
)

func main() { os.Exit(checks.Main(os.Args[1:])) }
