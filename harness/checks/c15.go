package checks

import (
	"encoding/json"
	"fmt"
	"math"
	"sync/atomic"

	config "github.com/TheCacophonyProject/go-config"
	"github.com/TheCacophonyProject/go-cptv/cptvframe"
	"github.com/TheCacophonyProject/thermal-recorder/motion"
	"github.com/TheCacophonyProject/thermal-recorder/recorder"
	"github.com/TheCacophonyProject/window"

	"verifkit/ev"
)

// C15 — dynamic threshold tracks the background mean within its configured bounds.

type c15Case struct {
	Cfg    DCfg     `json:"cfg"`
	Frames []DFrame `json:"frames"`
}

type c15Sink struct {
	starts   []c15Start
	cur      int
	failStop bool // StopRecording reports an error (the sink is closed nevertheless)
}
type c15Start struct {
	frame int
	thr   uint16
	bg    [][]uint16
}

func (s *c15Sink) CheckCanRecord() error { return nil }
func (s *c15Sink) StartRecording(bg *cptvframe.Frame, thr uint16) error {
	s.starts = append(s.starts, c15Start{s.cur, thr, copyGrid(bg.Pix)})
	return nil
}
func (s *c15Sink) WriteFrame(f *cptvframe.Frame) error { return nil }
func (s *c15Sink) StopRecording() error {
	if s.failStop {
		return errInjected
	}
	return nil
}

func allowedThresh(c DCfg, mean float64) map[uint16]bool {
	out := map[uint16]bool{}
	for _, m := range []float64{math.Floor(mean), math.Ceil(mean) - 1} {
		if m < 0 {
			m = 0
		}
		t := m
		if c.TMin != 0 && t < float64(c.TMin) {
			t = float64(c.TMin)
		}
		if c.TMax != 0 && t > float64(c.TMax) {
			t = float64(c.TMax)
		}
		out[uint16(t)] = true
	}
	return out
}

func checkBackground(c DCfg, bg [][]uint16, frame [][]uint16, reseed bool, where func() string) (string, string) {
	for y := 0; y < c.ResY; y++ {
		for x := 0; x < c.ResX; x++ {
			if c.interior(y, x) {
				if bg[y][x] > frame[y][x] {
					return "C15:background-warmer-than-frame", fmt.Sprintf("%s: background %d at (%d,%d) is warmer than the current frame %d", where(), bg[y][x], y, x, frame[y][x])
				}
				if reseed && bg[y][x] != frame[y][x] {
					return "C15:background-not-reseeded", fmt.Sprintf("%s: background %d at (%d,%d) was not re-seeded from the current frame %d", where(), bg[y][x], y, x, frame[y][x])
				}
				continue
			}
			// border replicates the nearest interior pixel
			ny, nx := y, x
			if ny < c.Edge {
				ny = c.Edge
			}
			if ny >= c.ResY-c.Edge {
				ny = c.ResY - c.Edge - 1
			}
			if nx < c.Edge {
				nx = c.Edge
			}
			if nx >= c.ResX-c.Edge {
				nx = c.ResX - c.Edge - 1
			}
			if bg[y][x] != bg[ny][nx] {
				return "C15:border-not-replicated", fmt.Sprintf("%s: background border pixel (%d,%d)=%d does not replicate the nearest interior pixel (%d,%d)=%d", where(), y, x, bg[y][x], ny, nx, bg[ny][nx])
			}
		}
	}
	return "", ""
}

func interiorMean(c DCfg, bg [][]uint16) float64 {
	sum, n := 0.0, 0
	for y := 0; y < c.ResY; y++ {
		for x := 0; x < c.ResX; x++ {
			if c.interior(y, x) {
				sum += float64(bg[y][x])
				n++
			}
		}
	}
	return sum / float64(n)
}

var c15APIEverywhere = false

// runC15: a panic inside the detector is a finding about the case, not a harness failure.
func runC15(c c15Case) (sig, msg string, n int) {
	defer func() {
		if p := recover(); p != nil {
			sig, msg = "C15:detector-panic", fmt.Sprintf("%+v stream %s: the detector panicked: %v", c.Cfg, fmtStream(c.Frames), p)
		}
	}()
	return runC15Deep(c)
}

func runC15Deep(c c15Case) (string, string, int) {
	conf := c.Cfg.motionConf()
	d := motion.NewMotionDetector(conf, c.Cfg.Preview, c.Cfg.cam())
	if _, _, ok := detState(d); !ok {
		// the detector's private fields were renamed: decide on the API level alone (R3)
		c15DeepLayer.Store(false)
		return runC15APIOnly(c)
	}
	prevThr := c.Cfg.T
	needSeed := true
	type st struct {
		thr uint16
		bg  [][]uint16
	}
	states := make([]st, len(c.Frames))
	recomputed := 0
	for i, f := range c.Frames {
		if f.Reset {
			d.Reset(c.Cfg.cam())
			needSeed = true
		}
		d.Detect(f.frame(c.Cfg, i+1))
		bgF, thr, _ := detState(d)
		bg := copyGrid(bgF.Pix)
		states[i] = st{thr, bg}
		where := func() string {
			return fmt.Sprintf("%+v stream %s: after frame %d", c.Cfg, fmtStream(c.Frames[:i+1]), i+1)
		}
		if f.FFC {
			needSeed = true
			if thr != prevThr {
				return "C15:threshold-changed-on-ffc-frame", fmt.Sprintf("%s: threshold changed from %d to %d on an FFC-affected frame", where(), prevThr, thr), recomputed
			}
			continue
		}
		if sig, msg := checkBackground(c.Cfg, bg, f.Pix, needSeed, where); sig != "" {
			return sig, msg, recomputed
		}
		if thr != prevThr {
			recomputed++
			mean := interiorMean(c.Cfg, bg)
			if !allowedThresh(c.Cfg, mean)[thr] {
				sig := "C15:threshold:not-the-bounded-mean"
				switch {
				case needSeed:
					sig = "C15:threshold:recomputed-on-seeding-frame-from-empty-mean"
				case c.Cfg.TMin != 0 && c.Cfg.TMax != 0 && mean < float64(c.Cfg.TMin) && thr < c.Cfg.TMin:
					sig = "C15:threshold:max-bound-overrides-min-bound"
				}
				return sig, fmt.Sprintf("%s: threshold recomputed to %d; interior background mean is %.3f, bounds [%d,%d] (0 = unset)", where(), thr, mean, c.Cfg.TMin, c.Cfg.TMax), recomputed
			}
		}
		prevThr = thr
		needSeed = false
	}
	if !c15APIEverywhere && c.Cfg.ResX*c.Cfg.ResY > 9 {
		return "", "", recomputed
	}
	// API level: a processor that starts a recording on every motion frame exposes background and threshold.
	// Second variant (streams with a camera reset only): recordings stay open (min=max=2 s) and closing
	// them reports a storage error - the reset must re-seed the background all the same.
	w, _ := window.New("12:00", "12:00", 0, 0)
	hasReset := false
	for _, f := range c.Frames {
		hasReset = hasReset || f.Reset
	}
	for variant := 0; variant < 2; variant++ {
		if variant == 1 && !hasReset {
			break
		}
		rc := &recorder.RecorderConfig{MinSecs: 0, MaxSecs: 0, PreviewSecs: c.Cfg.Preview, Window: *w}
		sk := &c15Sink{}
		if variant == 1 {
			rc.MinSecs, rc.MaxSecs = 2, 2
			sk.failStop = true
		}
		mp := motion.NewMotionProcessor(nil, &conf, rc, &config.Location{}, nil, sk, c.Cfg.cam(), nil, nil)
		for i, f := range c.Frames {
			if f.Reset {
				mp.Reset(c.Cfg.cam())
			}
			sk.cur = i
			mp.ProcessFrame(f.frame(c.Cfg, i+1))
		}
		for _, s := range sk.starts {
			want := states[s.frame]
			if s.thr != want.thr || fmt.Sprint(s.bg) != fmt.Sprint(want.bg) {
				sig := "C15:stored-background-or-threshold-not-the-one-in-force"
				if variant == 1 {
					sig = "C15:background-not-reseeded-after-reset-when-closing-the-recording-failed"
				}
				return sig, fmt.Sprintf("%+v stream %s (variant %d: %s): recording triggered at frame %d stored threshold %d / background %v; a detector fed the same frames and resets has %d / %v", c.Cfg, fmtStream(c.Frames), variant, map[int]string{0: "one-frame recordings", 1: "2 s recordings, StopRecording reports an error"}[variant], s.frame+1, s.thr, s.bg, want.thr, want.bg), recomputed
			}
		}
	}
	return "", "", recomputed
}

var c15DeepLayer atomic.Bool

func init() { c15DeepLayer.Store(true) }

// runC15APIOnly: without access to the detector's private state, the background and threshold are
// observed only where the API exposes them - the arguments of StartRecording (a processor with
// min=max=0 starts a recording on every motion frame).
func runC15APIOnly(c c15Case) (string, string, int) {
	conf := c.Cfg.motionConf()
	w, _ := window.New("12:00", "12:00", 0, 0)
	rc := &recorder.RecorderConfig{MinSecs: 0, MaxSecs: 0, PreviewSecs: c.Cfg.Preview, Window: *w}
	sk := &c15Sink{}
	mp := motion.NewMotionProcessor(nil, &conf, rc, &config.Location{}, nil, sk, c.Cfg.cam(), nil, nil)
	for i, f := range c.Frames {
		if f.Reset {
			mp.Reset(c.Cfg.cam())
		}
		sk.cur = i
		mp.ProcessFrame(f.frame(c.Cfg, i+1))
	}
	seen := map[uint16]bool{c.Cfg.T: true}
	for _, s := range sk.starts {
		where := func() string {
			return fmt.Sprintf("%+v stream %s: recording triggered at frame %d", c.Cfg, fmtStream(c.Frames[:s.frame+1]), s.frame+1)
		}
		if sig, msg := checkBackground(c.Cfg, s.bg, c.Frames[s.frame].Pix, false, where); sig != "" {
			return sig, msg, len(sk.starts)
		}
		// (the threshold may have been recomputed on an earlier frame that started no recording, so without
		// the deep layer only the configured bounds can be checked here)
		if s.thr != c.Cfg.T && ((c.Cfg.TMin != 0 && s.thr < c.Cfg.TMin) || (c.Cfg.TMax != 0 && s.thr > c.Cfg.TMax)) {
			return "C15:threshold:outside-configured-bounds", fmt.Sprintf("%s: stored threshold %d is outside [%d,%d]", where(), s.thr, c.Cfg.TMin, c.Cfg.TMax), len(sk.starts)
		}
		seen[s.thr] = true
	}
	return "", "", len(sk.starts)
}

func c15Replay(cj []byte) []ev.Violation {
	var c c15Case
	if err := json.Unmarshal(cj, &c); err != nil {
		panic(err)
	}
	if sig, msg, _ := runC15(c); sig != "" {
		return []ev.Violation{{Sig: sig, Msg: msg, Case: c}}
	}
	return nil
}

func c15Run(r *ev.Run) {
	type shape struct {
		x, y, e int
		alpha   []uint16
		L       int
	}
	lo, mid, hi := uint16(1100), uint16(1300), uint16(1500)
	shapes := []shape{
		{3, 3, 1, []uint16{lo, lo + 1, mid, hi}, 5},
		{5, 5, 2, []uint16{lo, mid, hi}, 4},
		{4, 3, 1, []uint16{lo, mid, hi}, 4},
		{3, 4, 1, []uint16{lo, mid, hi}, 4}, // two interior rows under a border: rows can change independently
		{4, 4, 1, []uint16{lo, hi}, 3},
		{2, 2, 0, []uint16{lo, hi}, 3},
	}
	if r.Thorough() {
		shapes = []shape{
			{3, 3, 1, []uint16{lo, lo + 1, mid, hi}, 6},
			{5, 5, 2, []uint16{lo, lo + 1, mid, hi}, 5},
			{4, 3, 1, []uint16{lo, mid, hi}, 4},
			{4, 3, 1, []uint16{lo, lo + 1, mid, hi}, 3},
			{6, 5, 2, []uint16{lo, mid, hi}, 3},
			{3, 4, 1, []uint16{lo, mid, hi}, 4},
			{3, 4, 1, []uint16{lo, lo + 1, mid, hi}, 3},
			{4, 4, 1, []uint16{lo, hi}, 3},
			{4, 4, 1, []uint16{lo, mid, hi}, 2},
			{2, 2, 0, []uint16{lo, hi}, 3},
			{2, 2, 0, []uint16{lo, mid, hi}, 2},
		}
	}
	r.Rule = "real detector with dynamic threshold: every stream of the stated length over per-pixel alphabets {lo, lo+1, mid, hi} (scene mean below, inside, above [temp-thresh-min,max] = [1200,1400]) for interiors of 1, 2 and 4 pixels in one or two rows (edge-pixels 0,1,2), with at most one FFC period of any length and at most one camera reset at any position; (min,max) in {unset,set}^2 plus min==max (threshold pinned inside / at the bottom of the scene range); preview frames 0,1,2. Oracle after every frame (deep layer) and at every sink StartRecording (API level, processor with min=max=0 so every motion frame starts a recording): background <= frame on the interior, border replicates nearest interior pixel, re-seeded after FFC/reset, threshold either unchanged or the bounded mean (+-1 float truncation), stored background/threshold = the ones in force (also when a camera reset arrives during a recording whose StopRecording reports an error). Second stage (slowly accumulating state): macro events 'hold the interior values for k frames' (k in {1,12,25}) over values 1 and 2 counts apart, 2-3 blocks, so that the weight-based acceptance of warmer pixels is reached. Non-trivial = stream in which the threshold was recomputed."
	c15APIEverywhere = r.Thorough()
	r.Bounds["api_level_on"] = map[bool]string{true: "all shapes", false: "shapes up to 3x3 (deep layer on all)"}[c15APIEverywhere]
	r.Assumptions = []string{"deep layer reads detector.background / tempThresh by name; API layer needs no private access"}
	type job struct {
		cfg   DCfg
		sh    shape
		flags string
		reset int
	}
	var jobs []job
	for _, sh := range shapes {
		for _, mm := range [][2]uint16{{0, 0}, {1200, 0}, {0, 1400}, {1200, 1400}, {1300, 1300}, {1101, 1101}} {
			for pv := 0; pv <= 2; pv++ {
				cfg := DCfg{ResX: sh.x, ResY: sh.y, Edge: sh.e, T: 1000, Delta: 10, Count: 1, Gap: 1, OneDiff: true, Warmer: true, Dynamic: true, TMin: mm[0], TMax: mm[1], Preview: pv}
				enumStrings("NF", sh.L, nil, func(s []byte) {
					runs := 0
					for i := range s {
						if s[i] == 'F' && (i == 0 || s[i-1] == 'N') {
							runs++
						}
					}
					if runs > 1 {
						return
					}
					for reset := -1; reset < sh.L; reset++ {
						if reset == 0 {
							continue
						}
						jobs = append(jobs, job{cfg, sh, string(s), reset})
					}
				})
			}
		}
	}
	r.Bounds["jobs"] = len(jobs)
	r.Parallel(len(jobs), func(w *ev.Worker, i int) {
		j := jobs[i]
		ip := interiorPixels(j.cfg)
		n := len(ip) * j.sh.L
		idx := make([]int, n)
		frames := make([]DFrame, j.sh.L)
		for k := range frames {
			frames[k].Pix = grid(j.cfg, 777)
			frames[k].FFC = j.flags[k] == 'F'
			frames[k].Reset = k == j.reset
			frames[k].Tim = k
		}
		for {
			for k := 0; k < n; k++ {
				p := ip[k%len(ip)]
				frames[k/len(ip)].Pix[p[0]][p[1]] = j.sh.alpha[idx[k]]
			}
			c := c15Case{Cfg: j.cfg, Frames: frames}
			sig, msg, rec := runC15(c)
			w.Evaluations++
			w.States++
			w.Transitions += int64(j.sh.L)
			w.Outcome(ev.Hash(j.cfg, rec, sig))
			if rec > 0 {
				w.Nontrivial++
			}
			if sig != "" {
				w.Violate(sig, msg, c15Case{Cfg: j.cfg, Frames: cloneStream(frames)}, j.sh.L*len(ip))
			} else if rec > 1 && w.WantSample() {
				w.Sample(map[string]interface{}{"cfg": j.cfg, "stream": fmtStream(frames), "threshold_recomputed_times": rec})
			}
			k := 0
			for k < n {
				idx[k]++
				if idx[k] < len(j.sh.alpha) {
					break
				}
				idx[k] = 0
				k++
			}
			if k == n {
				break
			}
		}
	})
}

// c15Slow: the background estimate follows a warmer scene only after a pixel has stayed warmer for
// about 10 x (difference) frames - state that short streams cannot reach. Macro events "hold these
// interior values for k frames" (k in {1, 12, 25}) with values 1 and 2 counts apart reach it.
func c15Slow(r *ev.Run) {
	vals := []uint16{1100, 1101, 1102}
	holds := []int{1, 12, 25}
	type job struct {
		cfg DCfg
		nb  int
	}
	var jobs []job
	for _, sh := range [][3]int{{3, 3, 1}, {3, 4, 1}} {
		for _, mm := range [][2]uint16{{0, 0}, {1101, 0}, {0, 1101}, {1101, 1101}} {
			for pv := 0; pv <= 1; pv++ {
				cfg := DCfg{ResX: sh[0], ResY: sh[1], Edge: sh[2], T: 1000, Delta: 10, Count: 1, Gap: 1, OneDiff: true, Warmer: true, Dynamic: true, TMin: mm[0], TMax: mm[1], Preview: pv}
				for nb := 2; nb <= 3; nb++ {
					jobs = append(jobs, job{cfg, nb})
				}
			}
		}
	}
	r.Bounds["slow_state_jobs"] = len(jobs)
	r.Parallel(len(jobs), func(w *ev.Worker, i int) {
		j := jobs[i]
		ip := interiorPixels(j.cfg)
		per := len(vals) * len(holds)
		if len(ip) == 2 {
			per = len(vals) * len(vals) * len(holds)
		}
		total := 1
		for k := 0; k < j.nb; k++ {
			total *= per
		}
		for code := 0; code < total; code++ {
			var frames []DFrame
			x := code
			for b := 0; b < j.nb; b++ {
				sel := x % per
				x /= per
				hold := holds[sel%len(holds)]
				sel /= len(holds)
				va := vals[sel%len(vals)]
				vb := va
				if len(ip) == 2 {
					vb = vals[(sel/len(vals))%len(vals)]
				}
				for k := 0; k < hold; k++ {
					f := DFrame{Pix: grid(j.cfg, 777), Tim: len(frames)}
					f.Pix[ip[0][0]][ip[0][1]] = va
					if len(ip) == 2 {
						f.Pix[ip[1][0]][ip[1][1]] = vb
					}
					frames = append(frames, f)
				}
			}
			c := c15Case{Cfg: j.cfg, Frames: frames}
			sig, msg, rec := runC15(c)
			w.Evaluations++
			w.States++
			w.Transitions += int64(len(frames))
			w.Outcome(ev.Hash(j.cfg, rec, sig, "slow"))
			if rec > 0 {
				w.Nontrivial++
			}
			if sig != "" {
				w.Violate(sig, msg, c15Case{Cfg: j.cfg, Frames: cloneStream(frames)}, len(frames))
			}
		}
	})
}

func init() {
	register(&Check{Property: "C15", Run: func(r *ev.Run) {
		c15Run(r)
		c15Slow(r)
		r.Extra["deep_layer"] = c15DeepLayer.Load()
	}, Replay: c15Replay})
}
