package checks

import (
	"fmt"
	"reflect"
	"strings"
	"time"
	"unsafe"

	"github.com/TheCacophonyProject/thermal-recorder/loglimiter"
)

// procLimiter finds the processor's log limiter by type (no field name).
func procLimiter(d *PDrv) *loglimiter.LogLimiter {
	v := reflect.ValueOf(d.mp).Elem()
	want := reflect.TypeOf((*loglimiter.LogLimiter)(nil))
	var found *loglimiter.LogLimiter
	n := 0
	for i := 0; i < v.NumField(); i++ {
		if v.Field(i).Type() == want {
			f := v.Field(i)
			found = reflect.NewAt(f.Type(), unsafe.Pointer(f.UnsafeAddr())).Elem().Interface().(*loglimiter.LogLimiter)
			n++
		}
	}
	if n != 1 {
		panic(fmt.Sprintf("C20 harness: MotionProcessor has %d *LogLimiter fields", n))
	}
	return found
}

// c20Processor: one condition ("recording not started: disk check failed") recurring on
// every frame of a real MotionProcessor, frames IntervalNs apart, for 3.5 minutes of
// injected time: it must be reported at once and then exactly once per minute.
func c20Processor(c c20Case, out *capWriter) string {
	period := time.Duration(c.IntervalNs)
	d := NewPDrv(PCase{Cfg: PCfg{FPS: 1, Preview: 1, Trigger: 1, Min: 1, Max: 2, Via: "frame"}})
	now := time.Unix(1_600_000_000, 0)
	setClock(procLimiter(d), func() time.Time { return now })
	n := int(210*time.Second/period) + 3
	if n > 2500 {
		n = 2500
	}
	if n < 6 {
		n = 6
	}
	var lastPrint time.Time
	have := false
	for i := 0; i < n; i++ {
		before := len(out.lines)
		tok := "1d"
		d.Apply(tok)
		got := out.lines[before:]
		if i == 0 {
			// first frame: never motion, nothing to report
			if len(got) != 0 {
				return fmt.Sprintf("frame 1 logged %q", got)
			}
			now = now.Add(period)
			continue
		}
		want := !have || now.Sub(lastPrint) >= time.Minute
		if want {
			if len(got) != 1 || !strings.Contains(got[0], "ecording not started") {
				return fmt.Sprintf("frame %d (%v after the last report): the recurring refusal must be reported once per minute, got %d lines %q", i+1, now.Sub(lastPrint), len(got), got)
			}
			have, lastPrint = true, now
		} else if len(got) != 0 {
			return fmt.Sprintf("frame %d (%v after the last report): recurring refusal logged again inside the one-minute interval: %q", i+1, now.Sub(lastPrint), got)
		}
		now = now.Add(period)
	}
	return ""
}
