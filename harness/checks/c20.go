package checks

import (
	"encoding/json"
	"fmt"
	"log"
	"reflect"
	"time"
	"unsafe"

	"github.com/TheCacophonyProject/thermal-recorder/loglimiter"

	"verifkit/ev"
)

// C20 — log limiter drops only exact repeats inside the interval, nothing else.
//
// Every sequence of (message, inter-arrival delay) pairs over a boundary alphabet, on
// the real LogLimiter with its clock owned by the harness; the oracle is the
// statement's reference: suppressed <=> equal to the last *printed* message and less
// than the interval after that print.

type c20Case struct {
	IntervalNs int64  `json:"interval_ns"`
	Mode       string `json:"mode"` // "print", "printf", "mixed"
	Msgs       []int  `json:"msgs"`
	Delays     []int  `json:"delays"` // indexes into c20Delays(interval)
}

var c20Messages = []string{"a", "b", "", "100%d a"}

func c20Delays(iv time.Duration) []time.Duration {
	return []time.Duration{0, 1, iv - 1, iv, iv + 1, 3 * iv}
}

type capWriter struct{ lines []string }

func (c *capWriter) Write(p []byte) (int, error) {
	c.lines = append(c.lines, string(p))
	return len(p), nil
}

// setClock installs a clock into a LogLimiter: the (only) field of type func() time.Time.
func setClock(l *loglimiter.LogLimiter, now func() time.Time) {
	v := reflect.ValueOf(l).Elem()
	want := reflect.TypeOf(now)
	n := 0
	for i := 0; i < v.NumField(); i++ {
		if v.Field(i).Type() == want {
			f := v.Field(i)
			reflect.NewAt(f.Type(), unsafe.Pointer(f.UnsafeAddr())).Elem().Set(reflect.ValueOf(now))
			n++
		}
	}
	if n != 1 {
		panic(fmt.Sprintf("C20 harness: LogLimiter has %d clock fields (func() time.Time); cannot own its clock", n))
	}
}

func runC20Case(c c20Case, out *capWriter) (msg string, printed []bool) {
	iv := time.Duration(c.IntervalNs)
	delays := c20Delays(iv)
	now := time.Unix(1_600_000_000, 0)
	l := loglimiter.New(iv)
	setClock(l, func() time.Time { return now })
	// reference
	havePrinted := false
	var lastMsg string
	var lastT time.Time
	for i := range c.Msgs {
		now = now.Add(delays[c.Delays[i]])
		m := c20Messages[c.Msgs[i]]
		before := len(out.lines)
		usePrintf := c.Mode == "printf" || (c.Mode == "mixed" && i%2 == 1)
		if usePrintf {
			l.Printf("%s", m)
		} else {
			l.Print(m)
		}
		got := len(out.lines) - before
		want := !(havePrinted && m == lastMsg && now.Sub(lastT) < iv)
		printed = append(printed, got > 0)
		if want && got != 1 {
			return fmt.Sprintf("event %d (%q, %v after the last print of %q): expected to be printed, got %d lines", i+1, m, now.Sub(lastT), lastMsg, got), printed
		}
		if !want && got != 0 {
			return fmt.Sprintf("event %d (%q, %v after the last print): exact repeat inside the interval was printed", i+1, m, now.Sub(lastT)), printed
		}
		if want {
			if out.lines[len(out.lines)-1] != m+"\n" {
				return fmt.Sprintf("event %d: printed %q, expected %q unmodified", i+1, out.lines[len(out.lines)-1], m+"\n"), printed
			}
			havePrinted, lastMsg, lastT = true, m, now
		}
	}
	return "", printed
}

func c20Replay(cj []byte) []ev.Violation {
	var c c20Case
	if err := json.Unmarshal(cj, &c); err != nil {
		panic(err)
	}
	out := &capWriter{}
	log.SetOutput(out)
	log.SetFlags(0)
	defer Quiet()
	if c.Mode == "processor" {
		if m := c20Processor(c, out); m != "" {
			return []ev.Violation{{Sig: "loglimiter-processor", Msg: m, Case: c}}
		}
		return nil
	}
	if m, _ := runC20Case(c, out); m != "" {
		return []ev.Violation{{Sig: "loglimiter-suppression", Msg: m, Case: c}}
	}
	return nil
}

func c20Run(r *ev.Run) {
	length, nmsg := 5, 3
	if r.Thorough() {
		length = 6
	}
	r.Rule = "every sequence of (message, inter-arrival delay) pairs of the stated length over messages {a,b,\"\"(,\"100%d a\")} x delays {0,1ns,interval-1ns,interval,interval+1ns,3*interval}, via Print, Printf and alternating, for interval 1 min and 1 s; oracle = reference limiter (suppressed iff equal to last printed message and < interval after that print); plus the limiter inside a real MotionProcessor (interval read behaviourally with an owned clock). Non-trivial = distinct printed/suppressed pattern."
	r.Bounds["sequence_length"] = length
	r.Assumptions = []string{"log output goes through the standard logger (captured with log.SetOutput)", "the limiter's clock is its only func() time.Time field"}
	w := r.Serial() // the standard logger is process-global: this check is deliberately single-threaded
	out := &capWriter{}
	log.SetOutput(out)
	log.SetFlags(0)
	defer Quiet()
	type cfg struct {
		iv   time.Duration
		mode string
		nmsg int
		len  int
	}
	cfgs := []cfg{{time.Minute, "print", nmsg, length}, {time.Second, "printf", nmsg, length - 1}, {time.Minute, "mixed", nmsg, length - 1}}
	if r.Thorough() {
		cfgs = append(cfgs, cfg{time.Second, "print", 4, 5}, cfg{time.Minute, "printf", 3, 6})
	}
	var tn treeNodes
	for _, cf := range cfgs {
		alpha := ""
		for i := 0; i < cf.nmsg*6; i++ {
			alpha += string(rune('A' + i))
		}
		c := c20Case{IntervalNs: int64(cf.iv), Mode: cf.mode, Msgs: make([]int, cf.len), Delays: make([]int, cf.len)}
		enumStrings(alpha, cf.len, nil, func(s []byte) {
			for i, b := range s {
				c.Msgs[i] = int(b-'A') / 6
				c.Delays[i] = int(b-'A') % 6
			}
			out.lines = out.lines[:0]
			msg, printed := runC20Case(c, out)
			w.Evaluations++
			w.Transitions += int64(len(printed))
			w.States += tn.add(s)
			h := ev.Hash(printed)
			w.Outcome(h)
			for _, p := range printed {
				if !p { // non-trivial: at least one message was suppressed
					w.NontrivialKey(ev.Hash(cf.mode, cf.iv, string(s)))
					break
				}
			}
			if msg != "" {
				cc := c
				cc.Msgs = append([]int{}, c.Msgs[:len(printed)]...)
				cc.Delays = append([]int{}, c.Delays[:len(printed)]...)
				w.Violate("loglimiter-suppression", msg, cc, len(printed))
			} else if w.WantSample() && printed[len(printed)-1] == false {
				w.Sample(map[string]interface{}{"interval": cf.iv.String(), "mode": cf.mode, "msgs": append([]int{}, c.Msgs...), "delay_idx": append([]int{}, c.Delays...), "printed": fmt.Sprint(printed)})
			}
		})
	}
	// the limiter as wired into the motion processor: one condition recurring on every frame
	for _, periodMs := range []int{1000, 700, 111, 7000, 60000, 59999} {
		c := c20Case{Mode: "processor", IntervalNs: int64(periodMs) * int64(time.Millisecond)}
		out.lines = out.lines[:0]
		w.Evaluations++
		if m := c20Processor(c, out); m != "" {
			w.Violate("loglimiter-processor", m, c, 1)
		}
	}
}

func init() { register(&Check{Property: "C20", Run: c20Run, Replay: c20Replay}) }
