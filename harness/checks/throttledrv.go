package checks

import (
	"fmt"
	"reflect"
	"strings"
	"time"
	"unsafe"

	config "github.com/TheCacophonyProject/go-config"
	"github.com/TheCacophonyProject/go-cptv/cptvframe"
	"github.com/TheCacophonyProject/thermal-recorder/throttle"
	"github.com/juju/ratelimit"

	"verifkit/canon"
)

// ---- driver for the real ThrottledRecorder (C05, C06)

type TCfg struct {
	FPS        int `json:"fps"`
	BucketSecs int `json:"bucket_secs"`
	MinLenSecs int `json:"min_plus_preview_secs"`
	RefillSecs int `json:"min_refill_secs"`
}

func (c TCfg) C() int64        { return int64(c.BucketSecs * c.FPS) }
func (c TCfg) MinLen() int64   { return int64(c.MinLenSecs * c.FPS) }
func (c TCfg) Rate() float64   { return float64(c.MinLen()) / float64(c.RefillSecs) } // frames per second
func (c TCfg) Exact() bool     { return (int64(c.RefillSecs)*1_000_000_000)%(2*c.MinLen()) == 0 }
func (c TCfg) TickNs() float64 { return 1e9 / c.Rate() }

// TCase: event tokens
//
//	S / Sf   upstream StartRecording (f: the wrapped recorder's StartRecording fails if called during this event)
//	W / Wf   upstream WriteFrame
//	X        upstream StopRecording
//	a0..a3   clock advance: half a tick, one tick, min-length ticks (= min-refill), 10*capacity ticks
type TCase struct {
	Cfg    TCfg     `json:"cfg"`
	Events []string `json:"events"`
}

type tclock struct{ now time.Time }

func (c *tclock) Now() time.Time        { return c.now }
func (c *tclock) Sleep(d time.Duration) { c.now = c.now.Add(d) }

type tcall struct {
	kind byte // 's','w','x','e' (throttled event)
	ok   bool
	bg   *cptvframe.Frame
	thr  uint16
	f    *cptvframe.Frame
}

type tbase struct {
	d    *TDrv
	open bool
}

func (b *tbase) CheckCanRecord() error { return nil }
func (b *tbase) StartRecording(bg *cptvframe.Frame, thr uint16) error {
	if b.open {
		b.d.breach = "start-while-open"
	}
	fail := b.d.failStart
	b.d.calls = append(b.d.calls, tcall{kind: 's', ok: !fail, bg: bg, thr: thr})
	if fail {
		return errInjected
	}
	b.open = true
	return nil
}
func (b *tbase) WriteFrame(f *cptvframe.Frame) error {
	if !b.open {
		b.d.breach = "write-while-closed"
	}
	b.d.calls = append(b.d.calls, tcall{kind: 'w', ok: true, f: f})
	b.d.forwarded++
	b.d.mon -= 2 // monitor in half-frames
	return nil
}
func (b *tbase) StopRecording() error {
	if !b.open {
		b.d.breach = "stop-while-closed"
	}
	b.d.calls = append(b.d.calls, tcall{kind: 'x', ok: true})
	b.open = false
	return nil
}

type tlistener struct{ d *TDrv }

func (l *tlistener) WhenThrottled() { l.d.calls = append(l.d.calls, tcall{kind: 'e', ok: true}) }

// TDrv owns one real ThrottledRecorder.
type TDrv struct {
	cfg       TCfg
	clk       *tclock
	tr        *throttle.ThrottledRecorder
	base      *tbase
	bucket    *ratelimit.Bucket
	calls     []tcall // calls of the current event
	failStart bool
	breach    string
	forwarded int64
	// upstream view
	upOpen bool
	nS     int
	curBG  *cptvframe.Frame
	curThr uint16
	// reference model state
	refBaseOpen bool
	refBG       *cptvframe.Frame
	refThr      uint16
	fileFrames  int64 // frames in the currently open base file
	// monitors
	mon      int64   // exact: half-frames; starts at 2*(C+2), gains 2*rate*dt (exact configs only)
	monF     float64 // float: frames; gains 1.01*rate*dt
	elapsedH int64   // elapsed half ticks (exact configs)
	frame    *cptvframe.Frame
}

func NewTDrv(cfg TCfg) *TDrv {
	d := &TDrv{cfg: cfg, clk: &tclock{now: time.Unix(1_600_000_000, 0)}}
	d.base = &tbase{d: d}
	tc := &config.ThermalThrottler{Activate: true, BucketSize: time.Duration(cfg.BucketSecs) * time.Second, MinRefill: time.Duration(cfg.RefillSecs) * time.Second}
	d.tr = throttle.NewThrottledRecorderWithClock(d.base, tc, cfg.MinLenSecs, &tlistener{d}, d.clk, Cam{4, 4, cfg.FPS})
	v := reflect.ValueOf(d.tr).Elem()
	want := reflect.TypeOf((*ratelimit.Bucket)(nil))
	for i := 0; i < v.NumField(); i++ {
		if v.Field(i).Type() == want {
			f := v.Field(i)
			d.bucket = reflect.NewAt(f.Type(), unsafe.Pointer(f.UnsafeAddr())).Elem().Interface().(*ratelimit.Bucket)
		}
	}
	if d.bucket == nil {
		panic("throttle harness: ThrottledRecorder has no *ratelimit.Bucket field")
	}
	d.mon = 2 * (cfg.C() + 2)
	d.monF = float64(cfg.C() + 2)
	d.frame = cptvframe.NewFrame(Cam{4, 4, cfg.FPS})
	return d
}

func (d *TDrv) advance(halfTicks int64) {
	ns := time.Duration(float64(halfTicks) * d.cfg.TickNs() / 2)
	if d.cfg.Exact() {
		ns = time.Duration(halfTicks * (int64(d.cfg.RefillSecs) * 1_000_000_000 / (2 * d.cfg.MinLen())))
	}
	d.clk.now = d.clk.now.Add(ns)
	d.elapsedH += halfTicks
	d.mon += halfTicks // rate * dt in half-frames = halfTicks
	if m := 2 * (d.cfg.C() + 2); d.mon > m {
		d.mon = m
	}
	d.monF += 1.01 * d.cfg.Rate() * ns.Seconds()
	if m := float64(d.cfg.C() + 2); d.monF > m {
		d.monF = m
	}
}

func (d *TDrv) advanceHalfTicks(idx int) int64 {
	switch idx {
	case 0:
		return 1
	case 1:
		return 2
	case 2:
		return 2 * d.cfg.MinLen()
	default:
		return 20 * d.cfg.C()
	}
}

// Enabled says whether the upstream (the motion processor) can emit this token now.
func (d *TDrv) Enabled(tok string) bool {
	switch tok[0] {
	case 'S':
		return !d.upOpen
	case 'W', 'X':
		return d.upOpen
	}
	return true
}

// Apply applies one token and checks C05 (monitor) and C06 (reference) for this step.
// Returns (signature, message) of the first breach.
func (d *TDrv) Apply(tok string) (string, string) {
	d.calls = d.calls[:0]
	d.failStart = len(tok) > 1 && tok[1] == 'f'
	if tok[0] == 'a' {
		d.advance(d.advanceHalfTicks(int(tok[1] - '0')))
		return "", ""
	}
	avail := d.bucket.Available() // idempotent at a fixed clock instant (see DESIGN C06)
	minLen := d.cfg.MinLen()
	var want []tcall
	var wantErr bool
	var err error
	switch tok[0] {
	case 'S':
		d.nS++
		bg := cptvframe.NewFrame(Cam{4, 4, d.cfg.FPS})
		thr := uint16(1000 + d.nS)
		if avail >= minLen {
			want = append(want, tcall{kind: 's', ok: !d.failStart, bg: bg, thr: thr})
			if d.failStart {
				wantErr = true
			} else {
				d.refBaseOpen = true
				d.fileFrames = 0
			}
		} else {
			want = append(want, tcall{kind: 'e', ok: true})
		}
		if !wantErr {
			d.refBG, d.refThr = bg, thr
		}
		err = d.tr.StartRecording(bg, thr)
		if err == nil {
			d.upOpen = true
		}
	case 'W':
		cut := false
		if !d.refBaseOpen {
			if avail >= minLen {
				want = append(want, tcall{kind: 's', ok: !d.failStart, bg: d.refBG, thr: d.refThr})
				if d.failStart {
					wantErr = true
				} else {
					d.refBaseOpen = true
					d.fileFrames = 0
				}
			}
		}
		if d.refBaseOpen && !wantErr {
			if avail >= 1 {
				want = append(want, tcall{kind: 'w', ok: true, f: d.frame})
				d.fileFrames++
			} else {
				want = append(want, tcall{kind: 'e', ok: true}, tcall{kind: 'x', ok: true})
				d.refBaseOpen = false
				cut = true
			}
		}
		err = d.tr.WriteFrame(d.frame)
		if cut && d.fileFrames < minLen {
			return "C06:short-cut-file", fmt.Sprintf("file cut by the throttle after %d frames, minimum-length recording is %d frames", d.fileFrames, minLen)
		}
	case 'X':
		if d.refBaseOpen {
			want = append(want, tcall{kind: 'x', ok: true})
			d.refBaseOpen = false
		}
		err = d.tr.StopRecording()
		d.upOpen = false
	}
	if d.breach != "" {
		return "C06:pairing:" + d.breach, fmt.Sprintf("wrapped recorder saw %s during %s (available budget %d, min length %d)", d.breach, tok, avail, minLen)
	}
	if (err != nil) != wantErr {
		return "C06:error-propagation", fmt.Sprintf("%s returned err=%v, expected error=%v (available %d, min length %d)", tok, err, wantErr, avail, minLen)
	}
	if sig, msg := compareCalls(tok, avail, minLen, want, d.calls); sig != "" {
		return sig, msg
	}
	// C05 monitors
	if d.cfg.Exact() && d.mon < 0 {
		return "C05:budget-exceeded", fmt.Sprintf("frames reaching storage exceed bucket (%d) + refill earned + 2 frames tolerance in some interval ending now (monitor %.1f frames below zero; %d forwarded in %.1f ticks)", d.cfg.C(), float64(-d.mon)/2, d.forwarded, float64(d.elapsedH)/2)
	}
	if d.monF < -1e-6 {
		return "C05:budget-exceeded", fmt.Sprintf("frames reaching storage exceed bucket (%d) + 1.01*refill + 2 frames in some interval ending now (monitor %.3f; %d forwarded in %.1f ticks)", d.cfg.C(), d.monF, d.forwarded, float64(d.elapsedH)/2)
	}
	return "", ""
}

func callStr(cs []tcall) string {
	var sb strings.Builder
	for _, c := range cs {
		switch c.kind {
		case 's':
			sb.WriteString("start")
			if !c.ok {
				sb.WriteString("(fails)")
			}
		case 'w':
			sb.WriteString("write")
		case 'x':
			sb.WriteString("stop")
		case 'e':
			sb.WriteString("throttled-event")
		}
		sb.WriteByte(' ')
	}
	if sb.Len() == 0 {
		return "(nothing)"
	}
	return strings.TrimSpace(sb.String())
}

func compareCalls(tok string, avail, minLen int64, want, got []tcall) (string, string) {
	ctx := fmt.Sprintf("on %s with %d frames of budget (min length %d): wrapped recorder/listener saw [%s], expected [%s]", tok, avail, minLen, callStr(got), callStr(want))
	ne, ge := 0, 0
	for _, c := range want {
		if c.kind == 'e' {
			ne++
		}
	}
	for _, c := range got {
		if c.kind == 'e' {
			ge++
		}
	}
	if ne != ge {
		return "C06:throttled-events", ctx
	}
	if len(want) != len(got) {
		return "C06:call-sequence", ctx
	}
	for i := range want {
		w, g := want[i], got[i]
		if w.kind != g.kind {
			return "C06:call-sequence", ctx
		}
		if w.kind == 's' && (w.bg != g.bg || w.thr != g.thr) {
			return "C06:start-arguments", ctx + fmt.Sprintf(" - background/threshold differ (threshold %d, expected %d)", g.thr, w.thr)
		}
		if w.kind == 'w' && w.f != g.f {
			return "C06:frame-not-forwarded-unchanged", ctx
		}
	}
	return "", ""
}

// Key is the canonical state key for the fixpoint search (exact configurations only).
func (d *TDrv) Key() string {
	r := canon.NewRules()
	r.SkipTypes["*checks.tbase"] = true
	r.SkipTypes["*checks.tlistener"] = true
	r.Type["ratelimit.Bucket"] = func(v reflect.Value) (string, bool) {
		get := func(name string) reflect.Value {
			f := v.FieldByName(name)
			if !f.IsValid() {
				panic("ratelimit.Bucket has no field " + name)
			}
			return canon.Access(f)
		}
		availT := get("availableTokens").Int()
		latest := get("latestTick").Int()
		fill := get("fillInterval").Int()
		start := get("startTime").Interface().(time.Time)
		el := d.clk.now.Sub(start)
		tick := int64(el) / fill
		stale := tick - latest
		if c := d.cfg.C() + 2; stale > c {
			stale = c
		}
		phase := (int64(el) % fill) * 2 / fill
		return fmt.Sprintf("B(avail=%d,stale=%d,phase=%d)", availT, stale, phase), true
	}
	r.Type["cptvframe.Frame"] = func(v reflect.Value) (string, bool) {
		if v.Addr().Interface().(*cptvframe.Frame) == d.refBG {
			return "bg:cur", true
		}
		return "bg:old", true
	}
	r.Field["throttle.ThrottledRecorder.tempThresh"] = func(v reflect.Value) (string, bool) {
		if uint16(v.Uint()) == d.refThr {
			return "cur", true
		}
		return "old", true
	}
	k := canon.Key(d.tr, r)
	ff := d.fileFrames
	if ff > d.cfg.MinLen() {
		ff = d.cfg.MinLen()
	}
	return fmt.Sprintf("%s|up=%v|refopen=%v|file=%d|mon=%d", k, d.upOpen, d.refBaseOpen, ff, d.mon)
}
