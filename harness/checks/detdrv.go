package checks

import (
	"fmt"
	"reflect"
	"sync/atomic"
	"time"

	config "github.com/TheCacophonyProject/go-config"
	"github.com/TheCacophonyProject/go-cptv/cptvframe"
	"github.com/TheCacophonyProject/thermal-recorder/motion"

	"verifkit/canon"
)

// ---- driver for the real motion detector (C07, C08, C09, C15)

// DCfg is a detector configuration.
type DCfg struct {
	X, Y    int    `json:"-"`
	ResX    int    `json:"res_x"`
	ResY    int    `json:"res_y"`
	Edge    int    `json:"edge_pixels"`
	T       uint16 `json:"temp_thresh"`
	Delta   uint16 `json:"delta_thresh"`
	Count   int    `json:"count_thresh"`
	Gap     int    `json:"frame_compare_gap"`
	OneDiff bool   `json:"use_one_diff_only"`
	Warmer  bool   `json:"warmer_only"`
	Dynamic bool   `json:"dynamic_threshold,omitempty"`
	TMin    uint16 `json:"temp_thresh_min,omitempty"`
	TMax    uint16 `json:"temp_thresh_max,omitempty"`
	Preview int    `json:"preview_frames,omitempty"`
}

func (c DCfg) motionConf() config.ThermalMotion {
	return config.ThermalMotion{DynamicThreshold: c.Dynamic, TempThreshMin: c.TMin, TempThreshMax: c.TMax, TempThresh: c.T, DeltaThresh: c.Delta,
		CountThresh: c.Count, FrameCompareGap: c.Gap, UseOneDiffOnly: c.OneDiff, WarmerOnly: c.Warmer, EdgePixels: c.Edge, TriggerFrames: 1}
}

func (c DCfg) cam() Cam { return Cam{c.ResX, c.ResY, 1} }

func (c DCfg) interior(y, x int) bool {
	return y >= c.Edge && x >= c.Edge && y < c.ResY-c.Edge && x < c.ResX-c.Edge
}

// DFrame is one input frame: full pixel grid plus FFC timing; Reset=true means "camera reset before this frame".
type DFrame struct {
	Pix   [][]uint16 `json:"pix"`
	FFC   bool       `json:"ffc,omitempty"`   // taken within 10 s after a flat-field correction
	Tim   int        `json:"tim,omitempty"`   // which boundary timing value to use (0/1)
	Reset bool       `json:"reset,omitempty"` // camera reset ('clear') immediately before this frame
}

var noFFC = []time.Duration{10 * time.Second, time.Hour}
var inFFC = []time.Duration{0, 10*time.Second - time.Millisecond}

func (f DFrame) frame(c DCfg, id int) *cptvframe.Frame {
	out := cptvframe.NewFrame(c.cam())
	for y := range out.Pix {
		copy(out.Pix[y], f.Pix[y])
	}
	since := noFFC[f.Tim%2]
	if f.FFC {
		since = inFFC[f.Tim%2]
	}
	out.Status = cptvframe.Telemetry{TimeOn: time.Hour + since, LastFFCTime: time.Hour, FrameCount: id}
	return out
}

// detect runs the real detector over the stream and returns the per-frame results.
// DetectPanic is set (per goroutine use: read right after the call) when the detector panicked.
func detectStream(c DCfg, fs []DFrame) (res []bool) {
	defer func() {
		if p := recover(); p != nil {
			// a panic inside the detector is reported as "motion on every frame + panic marker": the
			// callers' oracles then flag it; the message is kept for the violation text
			res = make([]bool, len(fs))
			for i := range res {
				res[i] = true
			}
			lastDetectPanic.Store(fmt.Sprint(p))
		}
	}()
	conf := c.motionConf()
	d := motion.NewMotionDetector(conf, c.Preview, c.cam())
	res = make([]bool, len(fs))
	for i, f := range fs {
		if f.Reset {
			d.Reset(c.cam())
		}
		res[i] = d.Detect(f.frame(c, i+1))
	}
	return res
}

var lastDetectPanic atomic.Value

// refDetect is the statement of C07 transcribed: fixed threshold, streams free of FFC events.
func refDetect(c DCfg, fs []DFrame) []bool {
	res := make([]bool, len(fs))
	clamp := func(v uint16) int {
		if v < c.T {
			return int(c.T)
		}
		return int(v)
	}
	start := 0 // index of the earliest frame since start-up / last reset
	var prevOver [][]bool
	for i, f := range fs {
		if f.Reset {
			start = i
		}
		ref := i - c.Gap
		if ref < start {
			ref = start
		}
		over := make([][]bool, c.ResY)
		both := 0
		now := 0
		for y := 0; y < c.ResY; y++ {
			over[y] = make([]bool, c.ResX)
			for x := 0; x < c.ResX; x++ {
				if !c.interior(y, x) {
					continue
				}
				dv := clamp(f.Pix[y][x]) - clamp(fs[ref].Pix[y][x])
				if dv < 0 {
					if c.Warmer {
						dv = 0
					} else {
						dv = -dv
					}
				}
				if dv > int(c.Delta) {
					over[y][x] = true
					now++
					if prevOver != nil && prevOver[y][x] {
						both++
					}
				}
			}
		}
		n := both
		if c.OneDiff {
			n = now
		}
		res[i] = i > 0 && n >= c.Count
		prevOver = over
	}
	return res
}

// grid builds a ResY x ResX grid filled with v.
func grid(c DCfg, v uint16) [][]uint16 {
	g := make([][]uint16, c.ResY)
	for y := range g {
		g[y] = make([]uint16, c.ResX)
		for x := range g[y] {
			g[y][x] = v
		}
	}
	return g
}

func copyGrid(g [][]uint16) [][]uint16 {
	o := make([][]uint16, len(g))
	for y := range g {
		o[y] = append([]uint16{}, g[y]...)
	}
	return o
}

// detState reads the detector's background and threshold (deep layer, by field name).
func detState(d interface{}) (bg *cptvframe.Frame, thr uint16, ok bool) {
	defer func() {
		if recover() != nil {
			ok = false
		}
	}()
	v := reflect.ValueOf(d).Elem()
	b := v.FieldByName("background")
	t := v.FieldByName("tempThresh")
	if !b.IsValid() || !t.IsValid() {
		return nil, 0, false
	}
	bg = canon.Access(b).Interface().(*cptvframe.Frame)
	thr = uint16(canon.Access(t).Uint())
	return bg, thr, true
}

func fmtStream(fs []DFrame) string {
	s := ""
	for _, f := range fs {
		if f.Reset {
			s += "R "
		}
		if f.FFC {
			s += "ffc"
		}
		s += fmt.Sprint(f.Pix) + " "
	}
	return s
}
