package checks

import (
	"fmt"

	"verifkit/ev"
)

// oracleC05Composed: arrival-curve monitor on the frames that reach storage through a real
// ThrottledRecorder driven by the real motion processor.
func oracleC05Composed(d *PDrv) (string, string) {
	t := d.cfg.Throttle
	capF := float64(t.BucketSecs * d.cfg.FPS)
	rate := float64((d.cfg.Min+d.cfg.Preview)*d.cfg.FPS) / float64(t.RefillSecs)
	level := capF + 2
	var last float64
	n := 0
	for _, o := range d.log {
		if o.Src != 'm' || o.Call != 'w' {
			continue
		}
		now := o.At.Seconds()
		level += 1.01 * rate * (now - last)
		if level > capF+2 {
			level = capF + 2
		}
		last = now
		level--
		n++
		if level < -1e-9 {
			return "C05:composed-budget-exceeded", fmt.Sprintf("frame %d is the %d-th frame reaching storage at t=%.2fs: exceeds bucket (%.0f frames) + 1.01*refill (%.3f frames/s) + 2 in some interval ending here (monitor %.3f)", o.ID, n, now, capF, rate, level)
		}
	}
	return "", ""
}

// c05Composed: the throttle under the real motion processor: every motion bit-string to
// the depth bound, plus clock jumps, resets and bad frames as deviations, plus long
// deterministic patterns (continuous motion, bursts).
func c05Composed(r *ev.Run) {
	L := 12
	if r.Thorough() {
		L = 16
	}
	cfgs := []PCfg{
		{FPS: 1, Preview: 1, Trigger: 1, Min: 1, Max: 3, Via: "raw", Throttle: &TCfg{FPS: 1, BucketSecs: 3, MinLenSecs: 2, RefillSecs: 4}},
		{FPS: 2, Preview: 1, Trigger: 1, Min: 0, Max: 2, Via: "raw", Throttle: &TCfg{FPS: 2, BucketSecs: 2, MinLenSecs: 1, RefillSecs: 4}},
		{FPS: 1, Preview: 0, Trigger: 1, Min: 2, Max: 2, Via: "raw", Throttle: &TCfg{FPS: 1, BucketSecs: 2, MinLenSecs: 2, RefillSecs: 7}},
		{FPS: 1, Preview: 2, Trigger: 2, Min: 1, Max: 4, Via: "raw", Throttle: &TCfg{FPS: 1, BucketSecs: 5, MinLenSecs: 3, RefillSecs: 6}},
	}
	r.Bounds["composed_depth"] = L
	var jobs []procJob
	jobs = append(jobs, jobsFor(cfgs, []string{"1", "0"}, []string{"J", "R", "B"}, L, 1)...)
	runProcJobs(r, jobs, []procOracle{oracleC05Composed}, hasRecording)
	// long deterministic patterns
	w := r.Serial()
	for _, c := range cfgs {
		for _, pat := range []string{"1", "1110", "10", "1111111100000000", "1J"} {
			var toks []string
			for len(toks) < 400 {
				for _, ch := range pat {
					toks = append(toks, string(ch))
				}
			}
			d := NewPDrv(PCase{Cfg: c, Events: toks})
			d.Run(toks)
			w.Evaluations++
			w.Transitions += int64(len(toks))
			if sig, msg := oracleC05Composed(d); sig != "" {
				w.Violate(sig, fmt.Sprintf("%+v pattern %q x400: %s", c, pat, msg), PCase{Cfg: c, Events: toks}, len(toks))
			}
		}
	}
}
