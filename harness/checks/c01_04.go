package checks

import (
	"encoding/json"
	"fmt"

	"verifkit/ev"
)

// enumDev enumerates every token string of length L over base ∪ dev with at most D
// tokens from dev, starting with the given prefix.
func enumDev(base, dev []string, L, D int, prefix []string, f func(toks []string)) {
	buf := make([]string, L)
	used := 0
	isDev := map[string]bool{}
	for _, t := range dev {
		isDev[t] = true
	}
	for i, t := range prefix {
		buf[i] = t
		if isDev[t] {
			used++
		}
	}
	if used > D || len(prefix) > L {
		return
	}
	var rec func(i, used int)
	rec = func(i, used int) {
		if i == L {
			f(buf)
			return
		}
		for _, t := range base {
			buf[i] = t
			rec(i+1, used)
		}
		if used < D {
			for _, t := range dev {
				buf[i] = t
				rec(i+1, used+1)
			}
		}
	}
	rec(len(prefix), used)
}

// procLattice is the configuration lattice of DESIGN.md §3.
func procLattice(fpsSet []int, via string, win string) []PCfg {
	var out []PCfg
	for _, fps := range fpsSet {
		for pre := 0; pre <= 2; pre++ {
			for trg := 0; trg <= 3; trg++ {
				if pre*fps+trg < 1 {
					continue
				}
				for mn := 0; mn <= 2; mn++ {
					for mx := mn; mx <= mn+2; mx++ {
						out = append(out, PCfg{FPS: fps, Preview: pre, Trigger: trg, Min: mn, Max: mx, Via: via, Window: win})
					}
				}
			}
		}
	}
	return out
}

type procOracle func(d *PDrv) (string, string)

type procJob struct {
	cfg    PCfg
	prefix []string
	base   []string
	dev    []string
	L, D   int
}

// runProcJobs runs the jobs in parallel, applying the oracles to every execution.
func runProcJobs(r *ev.Run, jobs []procJob, oracles []procOracle, nontrivial func(d *PDrv) bool) {
	r.Parallel(len(jobs), func(w *ev.Worker, i int) {
		j := jobs[i]
		cfgSeed := ev.Hash(j.cfg)
		var prevLeaf []string
		enumDev(j.base, j.dev, j.L, j.D, j.prefix, func(toks []string) {
			c := PCase{Cfg: j.cfg, Events: toks}
			d := NewPDrv(c)
			d.Run(toks)
			w.Evaluations++
			w.Transitions += int64(len(d.evKind))
			// new tree nodes = length - common prefix with previous leaf
			k := 0
			for k < len(toks) && k < len(prevLeaf) && toks[k] == prevLeaf[k] {
				k++
			}
			w.States += int64(len(toks) - k)
			prevLeaf = append(prevLeaf[:0], toks...)
			w.Outcome(d.traceHash(cfgSeed))
			if nontrivial(d) {
				w.Nontrivial++ // the enumeration never repeats a (configuration, string) pair
			}
			if d.panicMsg != "" {
				cc := PCase{Cfg: j.cfg, Events: append([]string{}, toks[:d.ev+1]...)}
				w.Violate("panic", d.panicMsg, cc, d.ev+1)
				return
			}
			for _, o := range oracles {
				if sig, msg := o(d); sig != "" {
					cc := minimizePrefix(PCase{Cfg: j.cfg, Events: append([]string{}, toks...)}, o, sig)
					w.Violate(sig, fmt.Sprintf("%+v events %v: %s | motion-sink trace: %s", j.cfg, cc.Events, msg, d.sinkTrace('m')), cc, len(cc.Events))
					return
				}
			}
			if w.WantSample() && nontrivial(d) {
				w.Sample(map[string]interface{}{"cfg": j.cfg, "events": append([]string{}, toks...), "motion_sink_trace": d.sinkTrace('m')})
			}
		})
	})
}

// minimizePrefix returns the shortest prefix of the case that still shows the same signature.
func minimizePrefix(c PCase, o procOracle, sig string) PCase {
	for n := 1; n < len(c.Events); n++ {
		cc := PCase{Cfg: c.Cfg, Events: c.Events[:n], Faults: c.Faults}
		d := NewPDrv(cc)
		d.Run(cc.Events)
		if s, _ := o(d); s == sig {
			return PCase{Cfg: c.Cfg, Events: append([]string{}, cc.Events...), Faults: c.Faults}
		}
	}
	return c
}

func procReplay(oracles []procOracle) func(cj []byte) []ev.Violation {
	return func(cj []byte) []ev.Violation {
		var c PCase
		if err := json.Unmarshal(cj, &c); err != nil {
			panic(err)
		}
		d := NewPDrv(c)
		d.Run(c.Events)
		if d.panicMsg != "" {
			return []ev.Violation{{Sig: "panic", Msg: d.panicMsg, Case: c}}
		}
		var out []ev.Violation
		for _, o := range oracles {
			if sig, msg := o(d); sig != "" {
				out = append(out, ev.Violation{Sig: sig, Msg: msg + " | motion-sink trace: " + d.sinkTrace('m'), Case: c})
			}
		}
		return out
	}
}

func hasRecording(d *PDrv) bool     { return len(d.recordings('m')) > 0 }
func hasTwoRecordings(d *PDrv) bool { return len(d.recordings('m')) > 1 }

var devRecorder = []string{"B", "R", "1d", "1s", "1c5"}

// "<k>fmx": event k during which the motion sink's StopRecording returns an error
var devStopFails = []string{"0fmx", "1fmx", "Bfmx", "Rfmx"}

// jobsFor builds jobs sharded by configuration x first two tokens.
func jobsFor(cfgs []PCfg, base, dev []string, L, D int) []procJob {
	var jobs []procJob
	all := append(append([]string{}, base...), dev...)
	for _, c := range cfgs {
		for _, a := range all {
			for _, b := range all {
				jobs = append(jobs, procJob{cfg: c, prefix: []string{a, b}, base: base, dev: dev, L: L, D: D})
			}
		}
	}
	return jobs
}

func c0103Run(prop string, oracles []procOracle, nontriv func(*PDrv) bool) func(r *ev.Run) {
	return func(r *ev.Run) {
		fps := []int{1}
		L, Ld, D := 12, 10, 2
		if r.Thorough() {
			fps = []int{1, 2, 3}
			L, Ld, D = 15, 12, 2
		}
		r.Rule = fmt.Sprintf("every event string over {1=motion frame, 0=still frame} of length %d (both entry points ProcessFrame and Process), and every string of length %d with at most %d deviations from {B=bad frame, R=camera reset, 1d=disk check refused, 1s=file creation refused, 1c5=window closed}, and every string of that length with one event during which the motion sink's StopRecording reports an error (0fmx, 1fmx, Bfmx, Rfmx), plus an explicit-state search to a FIXPOINT of canonical processor states over the same alphabet (<=2 deviations per history) - covering streams of any length - for every configuration of the lattice fps x preview-secs{0,1,2} x trigger-frames{0..3} x min-secs{0,1,2} x max-secs{min..min+2} with ring capacity >= 1; motion bits are produced through the real detector (beacon pixel); the oracles read motion from the observed MotionDetected callbacks, which C03 and C04 tie to the generated frame content. Non-trivial = execution with at least one recording (two for C01).", L, Ld, D)
		r.Bounds["fps"] = fps
		r.Bounds["depth_plain"] = L
		r.Bounds["depth_with_deviations"] = Ld
		r.Bounds["max_deviations"] = D
		r.Assumptions = []string{"frame identity travels in Status.FrameCount (copied with the frame, invisible to detection)", "configurations outside the lattice are reached only through cap/minF/maxF whose small values incl. 0 are covered"}
		var jobs []procJob
		jobs = append(jobs, jobsFor(procLattice(fps, "frame", ""), []string{"1", "0"}, nil, L, 0)...)
		jobs = append(jobs, jobsFor(procLattice(fps, "raw", "day"), []string{"1", "0"}, devRecorder, Ld, D)...)
		// a motion-sink StopRecording that reports an error (on a still, motion or bad frame, or on a reset) must not
		// change what the next recording contains: the unchanged code closes, marks the ring and zeroes its counters
		// regardless of the error
		jobs = append(jobs, jobsFor(procLattice(fps, "raw", "day"), []string{"1", "0"}, devStopFails, Ld, 1)...)
		if !r.Thorough() {
			// the quick lattice is fps 1; a few fps 2/3 configurations keep "seconds x fps" arithmetic observable
			var extra []PCfg
			for _, c := range []PCfg{{FPS: 2, Preview: 1, Trigger: 1, Min: 1, Max: 2}, {FPS: 3, Preview: 1, Trigger: 2, Min: 1, Max: 1}, {FPS: 2, Preview: 2, Trigger: 0, Min: 0, Max: 1}, {FPS: 3, Preview: 0, Trigger: 1, Min: 1, Max: 2}} {
				c.Via, c.Window = "raw", "day"
				extra = append(extra, c)
			}
			jobs = append(jobs, jobsFor(extra, []string{"1", "0"}, devRecorder, Ld, 1)...)
			jobs = append(jobs, jobsFor(extra, []string{"1", "0"}, nil, L+2, 0)...)
			r.Bounds["extra_fps_configurations"] = len(extra)
		}
		r.Bounds["configurations"] = len(procLattice(fps, "raw", "day"))
		// fixpoint mode: streams of any length for every configuration of the lattice
		capStates := 60000
		if r.Thorough() {
			capStates = 400000
		}
		one := func(d *PDrv) (string, string) {
			for _, o := range oracles {
				if s, m := o(d); s != "" {
					return s, m
				}
			}
			return "", ""
		}
		runProcFixpoint(r, "recorder_lattice", procLattice(fps, "raw", "day"), []string{"1", "0"}, devRecorder, 2, nil, one, func(d *PDrv) string { return d.recSummary() }, capStates)
		runProcJobs(r, jobs, oracles, nontriv)
	}
}

func c04Run(r *ev.Run) {
	// gates are the subject here: per-frame answers for window clock, disk check, file creation
	dayDev := []string{"1d", "1s", "1ds", "1c1", "1c2", "1c3", "1c4", "1c5", "1c6", "1c7", "1c5d", "1c1s", "0c5", "0d"}
	nightDev := []string{"1d", "1s", "1c1", "1c2", "1c3", "1c4", "1c5", "1c6", "1c7", "1c8", "1c5d", "0c5"}
	noneDev := []string{"1d", "1s", "1ds", "0d", "R"}
	L, D := 8, 2
	fps := []int{1}
	if r.Thorough() {
		L, D = 9, 2 // (depth 9 with 3 deviations is ~10^9 executions per window; 3 deviations are explored at depth 7 below)
		fps = []int{1, 2}
	}
	// reduced lattice: the gate logic depends on trigger-frames and on re-arming after a recording
	var cfgs []PCfg
	for _, f := range fps {
		for trg := 0; trg <= 3; trg++ {
			for _, pre := range []int{0, 1} {
				if pre*f+trg < 1 {
					continue
				}
				for _, mm := range [][2]int{{0, 0}, {1, 1}, {1, 2}} {
					cfgs = append(cfgs, PCfg{FPS: f, Preview: pre, Trigger: trg, Min: mm[0], Max: mm[1], Via: "frame"})
				}
			}
		}
	}
	r.Rule = fmt.Sprintf("every event string of length %d over {1,0} with at most %d gate deviations chosen per frame from: disk check refused, file creation refused, both, window clock at start-1ns/start/start+1s/stop-1ns/stop/stop+1s/other day (real window.Window 09:00-17:00, 22:00-06:00 spanning midnight, and no window) and combinations; trigger-frames 0..3; plus an explicit-state search to a FIXPOINT with every gate answer available at every frame (gate/motion strings of any length); oracle: start iff (no recording active, run>=trigger-frames, window open by own interval arithmetic, disk ok, creation ok). Non-trivial = execution with a refused or successful start.", L, D)
	r.Bounds["depth"] = L
	r.Bounds["max_deviations"] = D
	r.Bounds["configurations"] = len(cfgs) * 3
	var jobs []procJob
	for _, win := range []string{"day", "night", ""} {
		dev := dayDev
		if win == "night" {
			dev = nightDev
		} else if win == "" {
			dev = noneDev
		}
		var cs []PCfg
		for _, c := range cfgs {
			c.Window = win
			if win == "" {
				c.Via = "raw"
			}
			cs = append(cs, c)
		}
		jobs = append(jobs, jobsFor(cs, []string{"1", "0"}, dev, L, D)...)
		if r.Thorough() {
			jobs = append(jobs, jobsFor(cs, []string{"1", "0"}, dev, 7, 3)...)
		}
	}
	for _, win := range []string{"day", "night", ""} {
		dev := dayDev
		if win == "night" {
			dev = nightDev
		} else if win == "" {
			dev = []string{"1d", "1s", "1ds", "0d"}
		}
		var cs []PCfg
		for _, c := range cfgs {
			c.Window = win
			cs = append(cs, c)
		}
		// gate answers have no memory, so they are plain alphabet symbols here (no deviation bound)
		runProcFixpoint(r, "gates_window_"+map[string]string{"day": "day", "night": "night", "": "none"}[win], cs, append([]string{"1", "0"}, dev...), nil, 0, nil, oracleC04, func(d *PDrv) string { return d.recSummary() }, 200000)
	}
	runProcJobs(r, jobs, []procOracle{oracleC04}, func(d *PDrv) bool {
		for _, o := range d.log {
			if o.Src == 'm' && (o.Call == 'k' || o.Call == 's') {
				return true
			}
		}
		return false
	})
}

// c03Lattice varies what C03 quantifies over: min/max length combinations in frames
// (incl. 0, equality and max-min larger than min), fps, and the ring phase.
func c03Lattice(thorough bool) []PCfg {
	var out []PCfg
	type mm struct{ fps, minTop, spread, maxTop int }
	sets := []mm{{1, 4, 4, 6}, {2, 2, 2, 4}, {3, 1, 1, 2}}
	if thorough {
		sets = []mm{{1, 5, 5, 8}, {2, 3, 3, 5}, {3, 2, 2, 3}}
	}
	for _, s := range sets {
		for mn := 0; mn <= s.minTop; mn++ {
			for mx := mn; mx <= mn+s.spread && mx <= s.maxTop; mx++ {
				for _, pre := range []int{0, 1} {
					for trg := 0; trg <= 2; trg++ {
						if pre*s.fps+trg < 1 {
							continue
						}
						out = append(out, PCfg{FPS: s.fps, Preview: pre, Trigger: trg, Min: mn, Max: mx, Via: "frame"})
					}
				}
			}
		}
	}
	return out
}

func c03Run(r *ev.Run) {
	Lmax := 15
	if r.Thorough() {
		Lmax = 19
	}
	cfgs := c03Lattice(r.Thorough())
	r.Rule = fmt.Sprintf("every motion bit-string (events {1=motion frame, 0=still frame}, real detector) of length min(%d, cap+2*maxF+3) for every configuration of the C03 lattice (fps 1..3, min-secs 0..4(5), max-secs up to min+4(5), preview-secs {0,1}, trigger-frames {0,1,2}); plus the general recorder lattice with <=1 deviation (bad frame, reset, refused starts, a motion-sink StopRecording that returns an error on a still/motion/bad frame or reset) to depth 10(12), plus the C03 lattice itself with <=1 failing stop (on a still, motion or bad frame) to depth min(%d, cap+2*maxF+3); and an explicit-state search to a FIXPOINT over {1,0} for every configuration of the C03 lattice (motion patterns of any length, incl. configurations whose two-recording horizon exceeds the tree depth). Oracle: per recording, counted from the trigger frame, stop exactly at the first offset p >= min(q+minF-1, maxF) with q the latest motion offset. Non-trivial = execution with at least one recording.", Lmax, map[bool]int{false: 12, true: 13}[r.Thorough()])
	r.Bounds["depth_cap"] = Lmax
	r.Bounds["c03_lattice_configurations"] = len(cfgs)
	r.Assumptions = []string{"motion per frame is read from the observed MotionDetected callbacks; C03 and C04 additionally require those callbacks to agree with the generated frame content (beacon pixel toggled or not)", "configurations whose cap+2*maxF+3 exceeds the depth cap are covered to the cap only (reported per run in depth_limited_configurations)"}
	var jobs []procJob
	limited := 0
	for _, c := range cfgs {
		need := c.Cap() + 2*c.MaxF() + 3
		L := imin(Lmax, imax(need, 8))
		if need > Lmax {
			limited++
		}
		jobs = append(jobs, jobsFor([]PCfg{c}, []string{"1", "0"}, nil, L, 0)...)
	}
	r.Extra["depth_limited_configurations"] = limited
	fps := []int{1}
	Ld := 10
	if r.Thorough() {
		fps = []int{1, 2, 3}
		Ld = 12
	}
	// (storage write failures are deliberately NOT deviations here: C03 does not quantify over faults, and the
	// unchanged code itself ends a recording after one frame when a pre-trigger write fails - see DESIGN.md A.4)
	// A failing StopRecording IS a deviation here (round-8 seed): the unchanged code closes the recording and
	// zeroes its counters whether or not the sink's stop reports an error, so every later recording must still
	// have the stated length. "<k>fmx" = event k during which the motion sink's StopRecording returns an error.
	Ls := 12 // depth of the failing-stop trees on the C03 lattice (13 thorough: the 19-deep lattice times a deviation position is out of budget)
	if r.Thorough() {
		Ls = 13
	}
	devStop := append(append([]string{}, devRecorder...), devStopFails...)
	jobs = append(jobs, jobsFor(procLattice(fps, "raw", "day"), []string{"1", "0"}, devStop, Ld, 1)...)
	for _, c := range cfgs {
		c.Via = "raw"
		jobs = append(jobs, jobsFor([]PCfg{c}, []string{"1", "0"}, []string{"0fmx", "1fmx", "Bfmx"}, imin(Ls, imax(c.Cap()+2*c.MaxF()+3, 8)), 1)...)
	}
	capStates := 60000
	if r.Thorough() {
		capStates = 400000
	}
	runProcFixpoint(r, "c03_lattice", cfgs, []string{"1", "0"}, nil, 0, nil, oracleC03, func(d *PDrv) string { return d.recSummary() }, capStates)
	runProcJobs(r, jobs, []procOracle{oracleC03}, hasRecording)
}

func init() {
	register(&Check{Property: "C01", Run: c0103Run("C01", []procOracle{oracleC01}, hasTwoRecordings), Replay: procReplay([]procOracle{oracleC01})})
	register(&Check{Property: "C02", Run: c0103Run("C02", []procOracle{oracleC02}, hasRecording), Replay: procReplay([]procOracle{oracleC02})})
	register(&Check{Property: "C03", Run: c03Run, Replay: procReplay([]procOracle{oracleC03})})
	register(&Check{Property: "C04", Run: c04Run, Replay: procReplay([]procOracle{oracleC04})})
}
