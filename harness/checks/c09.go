package checks

import (
	"encoding/json"
	"fmt"

	"verifkit/ev"
)

// C09 — no detection during/after FFC; no comparison across an FFC or camera reset.

type c09Case struct {
	Cfg     DCfg   `json:"cfg"`
	Flags   string `json:"flags"`             // per frame: N normal, F FFC-affected
	Reset   int    `json:"reset_before"`      // index of the frame preceded by a camera reset, -1 none
	Scenes  string `json:"scenes"`            // per frame: A, B or C (beacon level)
	Scenes2 string `json:"scenes2,omitempty"` // second member of a witness pair (differs only before the separator)
	Sep     int    `json:"separator,omitempty"`
}

var c09Levels = map[byte]uint16{'A': 1100, 'B': 1300, 'C': 1500}

func c09Stream(c DCfg, flags, scenes string, reset int) []DFrame {
	fs := make([]DFrame, len(flags))
	for i := range fs {
		fs[i].Pix = grid(c, 1050)
		fs[i].Pix[1][1] = c09Levels[scenes[i]]
		fs[i].FFC = flags[i] == 'F'
		fs[i].Tim = i
		fs[i].Reset = i == reset
	}
	return fs
}

// separator returns the index of the first frame from which results must be independent
// of everything before it, or -1 if the statement makes no such claim for this pattern.
func c09Separator(c DCfg, flags string, reset int) int {
	sep := -1
	for i := 1; i < len(flags); i++ {
		if flags[i] == 'N' && flags[i-1] == 'F' {
			sep = i
		}
	}
	if !c.Dynamic && reset > sep {
		sep = reset
	}
	return sep
}

func c09Sig(c DCfg, flags string, reset, sep int) string {
	afterFFC := sep > 0 && flags[sep-1] == 'F'
	if !afterFFC {
		return "C09:independence:after-reset"
	}
	if c.Dynamic && reset > 0 && reset <= sep {
		// the dynamic threshold computed before a camera reset survives it (C09 itself excludes
		// reset-independence for dynamic thresholds); when the reset falls before/inside/right after
		// the FFC period the re-seeded background does not refresh it either
		return "C09:independence:after-ffc:dynamic-threshold-kept-across-reset-in-ffc-period"
	}
	return "C09:independence:after-ffc"
}

func runC09(c c09Case) []ev.Violation {
	var out []ev.Violation
	fs := c09Stream(c.Cfg, c.Flags, c.Scenes, c.Reset)
	res := detectStream(c.Cfg, fs)
	for i := range res {
		if res[i] && (c.Flags[i] == 'F' || (i > 0 && c.Flags[i-1] == 'F')) {
			out = append(out, ev.Violation{Sig: "C09:suppression", Msg: fmt.Sprintf("%+v flags %s scenes %s: frame %d (FFC-affected or directly following an FFC period) reported as motion", c.Cfg, c.Flags, c.Scenes, i+1), Case: c})
			break
		}
	}
	if c.Scenes2 != "" {
		res2 := detectStream(c.Cfg, c09Stream(c.Cfg, c.Flags, c.Scenes2, c.Reset))
		for i := c.Sep; i < len(res); i++ {
			if res[i] != res2[i] {
				out = append(out, ev.Violation{Sig: c09Sig(c.Cfg, c.Flags, c.Reset, c.Sep), Msg: fmt.Sprintf("%+v flags %s reset-before %d: streams %s and %s are identical from frame %d on (the first frame after the FFC period / reset) but frame %d reports motion=%v vs %v: detection still depends on frames from before", c.Cfg, c.Flags, c.Reset, c.Scenes, c.Scenes2, c.Sep+1, i+1, res[i], res2[i]), Case: c})
				break
			}
		}
	}
	return out
}

func c09Replay(cj []byte) []ev.Violation {
	var probe struct {
		Slow bool `json:"slow"`
	}
	if json.Unmarshal(cj, &probe) == nil && probe.Slow {
		var sc c09SlowCase
		if err := json.Unmarshal(cj, &sc); err != nil {
			panic(err)
		}
		return runC09Slow(sc)
	}
	var c c09Case
	if err := json.Unmarshal(cj, &c); err != nil {
		panic(err)
	}
	return runC09(c)
}

func c09Run(r *ev.Run) {
	L := 6
	gaps := []int{1, 2, 3}
	if r.Thorough() {
		L = 8
	}
	r.Rule = fmt.Sprintf("real detector, one beacon pixel at three levels (A,B,C, far apart); every stream of length 2..%d over {A,B,C} x {FFC-affected, not} with at most two FFC periods of any length (first frames, back-to-back) and at most one camera reset at any position; FFC timing at the boundary values 0 s / 10 s-1 ms (affected) and 10 s / 1 h (not); gap 1..3 x one-diff x warmer-only x {fixed, dynamic threshold}. Oracle (i): no FFC-affected frame nor the frame directly after a period reports motion. Oracle (ii), relational over the whole set: streams with the same flag pattern and the same content from the first frame after the last FFC period (or after the reset, fixed threshold) must give identical results from that frame on. Stage 2 (slowly accumulating background state, dynamic threshold): macro events (hold value v for k frames, k in {1,12}) over values {bg, bg+1, bg+delta+1}, 1-2 pre-FFC blocks, FFC period of 1..3 frames, every 4-frame post-FFC content; same relational oracle. Non-trivial = group with at least one motion result after the separator.", L)
	r.Bounds["max_length"] = L
	r.Assumptions = []string{"a frame is FFC-affected iff TimeOn-LastFFCTime < 10 s (telemetry as the Lepton reports it)"}
	var cfgs []DCfg
	for _, g := range gaps {
		for _, one := range []bool{true, false} {
			for _, warm := range []bool{false, true} {
				for _, dyn := range []bool{false, true} {
					cfgs = append(cfgs, DCfg{ResX: 3, ResY: 3, Edge: 1, T: 1000, Delta: 10, Count: 1, Gap: g, OneDiff: one, Warmer: warm, Dynamic: dyn, Preview: 1})
				}
			}
		}
	}
	type job struct {
		cfg   DCfg
		flags string
	}
	var jobs []job
	for n := 2; n <= L; n++ {
		enumStrings("NF", n, nil, func(s []byte) {
			runs := 0
			for i := range s {
				if s[i] == 'F' && (i == 0 || s[i-1] == 'N') {
					runs++
				}
			}
			if runs > 2 {
				return
			}
			for _, c := range cfgs {
				jobs = append(jobs, job{c, string(s)})
			}
		})
	}
	r.Bounds["flag_patterns_x_configs"] = len(jobs)
	r.Parallel(len(jobs), func(w *ev.Worker, i int) {
		j := jobs[i]
		n := len(j.flags)
		for reset := -1; reset < n; reset++ {
			if reset == 0 {
				continue // a reset before the first frame is start-up
			}
			sep := c09Separator(j.cfg, j.flags, reset)
			if sep < 0 {
				sep = 0
			}
			// group = fixed suffix content [sep..n), varying prefix content [0..sep)
			enumStrings("ABC", n-sep, nil, func(suffix []byte) {
				var first []bool
				var firstScenes string
				groupMotion := false
				enumStrings("ABC", sep, nil, func(prefix []byte) {
					scenes := string(prefix) + string(suffix)
					res := detectStream(j.cfg, c09Stream(j.cfg, j.flags, scenes, reset))
					w.Evaluations++
					w.Transitions += int64(n)
					w.States++
					for k := range res {
						if res[k] && (j.flags[k] == 'F' || (k > 0 && j.flags[k-1] == 'F')) {
							c := c09Case{Cfg: j.cfg, Flags: j.flags, Reset: reset, Scenes: scenes}
							w.Violate("C09:suppression", fmt.Sprintf("%+v flags %s scenes %s: frame %d (FFC-affected or directly following an FFC period) reported as motion", j.cfg, j.flags, scenes, k+1), c, n)
							break
						}
					}
					if first == nil {
						first = res
						firstScenes = scenes
						for k := sep; k < n; k++ {
							groupMotion = groupMotion || res[k]
						}
						w.Outcome(ev.Hash(j.cfg, j.flags, reset, string(suffix), res[sep:]))
						return
					}
					if sep > 0 {
						for k := sep; k < n; k++ {
							if res[k] != first[k] {
								c := c09Case{Cfg: j.cfg, Flags: j.flags, Reset: reset, Scenes: firstScenes, Scenes2: scenes, Sep: sep}
								w.Violate(c09Sig(j.cfg, j.flags, reset, sep), fmt.Sprintf("%+v flags %s reset-before %d: streams %s and %s are identical from frame %d on but frame %d reports motion=%v vs %v", j.cfg, j.flags, reset, firstScenes, scenes, sep+1, k+1, first[k], res[k]), c, n)
								break
							}
						}
					}
				})
				if groupMotion {
					w.Nontrivial++
					if w.WantSample() && sep > 0 {
						w.Sample(map[string]interface{}{"cfg": j.cfg, "flags": j.flags, "reset_before": reset, "separator": sep, "suffix_scenes": string(suffix), "results_from_separator": fmt.Sprint(first[sep:])})
					}
				}
			})
		}
	})
	c09Slow(r)
}

// ---- stage 2: slowly accumulating detector state (dynamic threshold)
//
// The background estimate carries per-pixel state that builds up over tens of frames.
// Single-frame alphabets cannot reach it within a feasible depth, so this stage uses
// macro events: "hold value v for k frames" (k in {1,12}), values at the boundary of
// the dynamic threshold (bg, bg+1, bg+delta+1).

type c09SlowCase struct {
	Cfg     DCfg     `json:"cfg"`
	Slow    bool     `json:"slow"`
	Pre     [][2]int `json:"pre_blocks"` // (value index, hold)
	Pre2    [][2]int `json:"pre_blocks_2,omitempty"`
	FFCLen  int      `json:"ffc_len"`
	FFCVal  int      `json:"ffc_val"`
	FFCVal2 int      `json:"ffc_val_2"`
	Post    []int    `json:"post"`
}

var c09SlowVals = []uint16{1100, 1101, 1111}

func c09SlowStream(c DCfg, pre [][2]int, ffcLen, ffcVal int, post []int) ([]DFrame, int) {
	var fs []DFrame
	add := func(v uint16, ffc bool) {
		f := DFrame{Pix: grid(c, 1050), FFC: ffc, Tim: len(fs)}
		f.Pix[1][1] = v
		fs = append(fs, f)
	}
	for _, b := range pre {
		for k := 0; k < b[1]; k++ {
			add(c09SlowVals[b[0]], false)
		}
	}
	for k := 0; k < ffcLen; k++ {
		add(c09SlowVals[ffcVal], true)
	}
	sep := len(fs)
	for _, v := range post {
		add(c09SlowVals[v], false)
	}
	return fs, sep
}

func runC09Slow(c c09SlowCase) []ev.Violation {
	a, sep := c09SlowStream(c.Cfg, c.Pre, c.FFCLen, c.FFCVal, c.Post)
	b, _ := c09SlowStream(c.Cfg, c.Pre2, c.FFCLen, c.FFCVal2, c.Post)
	ra, rb := detectStream(c.Cfg, a), detectStream(c.Cfg, b)
	for i := sep; i < len(ra); i++ {
		if ra[i] != rb[i] {
			return []ev.Violation{{Sig: "C09:independence:after-ffc:accumulated-background-state", Msg: fmt.Sprintf("%+v: two streams with the same structure (pre-FFC holds %v, FFC period of %d frames) and identical frames %v after the FFC period, differing only before it (%v/%d vs %v/%d), give motion=%v vs %v on frame %d after the period", c.Cfg, c.Pre, c.FFCLen, c.Post, c.Pre, c.FFCVal, c.Pre2, c.FFCVal2, ra[i], rb[i], i-sep+1), Case: c}}
		}
	}
	return nil
}

func c09Slow(r *ev.Run) {
	var cfgs []DCfg
	for _, g := range []int{1, 3} {
		for _, one := range []bool{true, false} {
			for _, warm := range []bool{false, true} {
				cfgs = append(cfgs, DCfg{ResX: 3, ResY: 3, Edge: 1, T: 1000, Delta: 10, Count: 1, Gap: g, OneDiff: one, Warmer: warm, Dynamic: true, Preview: 1})
			}
		}
	}
	holds := []int{1, 12}
	var structures [][]int // hold per pre-block
	for _, h1 := range holds {
		structures = append(structures, []int{h1})
		for _, h2 := range holds {
			structures = append(structures, []int{h1, h2})
		}
	}
	type job struct {
		cfg    DCfg
		st     []int
		ffcLen int
	}
	var jobs []job
	for _, c := range cfgs {
		for _, st := range structures {
			for fl := 1; fl <= 3; fl++ {
				jobs = append(jobs, job{c, st, fl})
			}
		}
	}
	r.Bounds["slow_state_jobs"] = len(jobs)
	r.Parallel(len(jobs), func(w *ev.Worker, i int) {
		j := jobs[i]
		nb := len(j.st)
		enumStrings("012", 4, nil, func(post []byte) {
			pv := make([]int, 4)
			for k := range post {
				pv[k] = int(post[k] - '0')
			}
			var first []bool
			var firstPre [][2]int
			firstFFC := 0
			enumStrings("012", nb+1, nil, func(pre []byte) {
				blocks := make([][2]int, nb)
				for k := 0; k < nb; k++ {
					blocks[k] = [2]int{int(pre[k] - '0'), j.st[k]}
				}
				ffcVal := int(pre[nb] - '0')
				fs, sep := c09SlowStream(j.cfg, blocks, j.ffcLen, ffcVal, pv)
				res := detectStream(j.cfg, fs)
				w.Evaluations++
				w.States++
				w.Transitions += int64(len(fs))
				for k := range res {
					if res[k] && (fs[k].FFC || (k > 0 && fs[k-1].FFC)) {
						w.Violate("C09:suppression", fmt.Sprintf("%+v slow-state stream: frame %d (FFC-affected or directly following) reported as motion", j.cfg, k+1), c09SlowCase{Cfg: j.cfg, Slow: true, Pre: blocks, Pre2: blocks, FFCLen: j.ffcLen, FFCVal: ffcVal, FFCVal2: ffcVal, Post: pv}, len(fs))
					}
				}
				if first == nil {
					first, firstPre, firstFFC = res[sep:], blocks, ffcVal
					m := false
					for _, v := range first {
						m = m || v
					}
					if m {
						w.Nontrivial++
					}
					w.Outcome(ev.Hash(j.cfg, j.st, j.ffcLen, pv, first))
					return
				}
				for k := range first {
					if res[sep+k] != first[k] {
						c := c09SlowCase{Cfg: j.cfg, Slow: true, Pre: firstPre, Pre2: blocks, FFCLen: j.ffcLen, FFCVal: firstFFC, FFCVal2: ffcVal, Post: pv}
						w.Violate("C09:independence:after-ffc:accumulated-background-state", fmt.Sprintf("%+v: pre-FFC holds %v vs %v (FFC %d frames), identical post-FFC frames %v: motion differs on post-FFC frame %d", j.cfg, firstPre, blocks, j.ffcLen, pv, k+1), c, len(fs))
						break
					}
				}
			})
		})
	})
}

func init() { register(&Check{Property: "C09", Run: c09Run, Replay: c09Replay}) }
