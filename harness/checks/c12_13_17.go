package checks

import (
	"encoding/json"
	"fmt"
	"strings"

	"github.com/TheCacophonyProject/lepton3"

	"verifkit/ev"
)

// ---------------------------------------------------------------- C12

// breachCause classifies a protocol breach so that recorded known findings match only
// the specific failing history shape.
func breachCause(d *PDrv, s *monSink) string {
	// s.breach = "<kind>:event N"
	kind := strings.SplitN(s.breach, ":", 2)[0]
	var evN int
	fmt.Sscanf(strings.SplitN(s.breach, ":event ", 2)[1], "%d", &evN)
	_ = evN
	cause := "other"
	switch kind {
	case "write-while-closed":
		// what closed the sink last?
		for i := s.breachAt - 1; i >= 0; i-- {
			o := d.log[i]
			if o.Src == s.name && o.Call == 'x' {
				switch {
				case !o.OK:
					cause = "after-stop-returned-error"
				case d.evKind[o.Ev] == 'B':
					cause = "after-stop-on-bad-frame"
				case d.evKind[o.Ev] == 'R':
					cause = "after-stop-on-reset"
				default:
					cause = "after-regular-stop"
				}
				break
			}
			if o.Src == s.name && o.Call == 's' && !o.OK && cause == "other" {
				cause = "after-failed-start"
			}
		}
	case "start-while-open":
		if s.name == 't' {
			cause = "request-while-test-recording-open"
		}
	}
	return fmt.Sprintf("C12:%c:%s:%s", s.name, kind, cause)
}

func sinkName(c byte) string {
	switch c {
	case 'm':
		return "motion"
	case 'c':
		return "continuous"
	}
	return "test"
}

// oracleC12Protocol: each sink sees writes only inside start..stop, no start while open; no panic.
func oracleC12Protocol(d *PDrv) (string, string) {
	if d.panicMsg != "" {
		return "C12:panic", d.panicMsg
	}
	for _, s := range []*monSink{d.m, d.c, d.t} {
		if s.breach != "" {
			return breachCause(d, s), fmt.Sprintf("%s sink: %s | trace: %s", sinkName(s.name), s.breach, d.sinkTrace(s.name))
		}
	}
	return "", ""
}

// c12Suffix is the fault-free continuation used by the recovery clause.
func c12Suffix(c PCfg) []string {
	var s []string
	s = append(s, "R")
	for i := 0; i < c.Cap()+1; i++ {
		s = append(s, "0")
	}
	for i := 0; i < imax(c.Trigger, 1); i++ {
		s = append(s, "1")
	}
	for i := 0; i < c.MinF()+2; i++ {
		s = append(s, "0")
	}
	return s
}

// oracleC12Recovery: after the (faulty) prefix of n events, the fault-free suffix must be recorded normally.
func oracleC12Recovery(d *PDrv, n int) (string, string) {
	c := d.cfg
	sfx := c12Suffix(c)
	trigEv := n + 1 + (c.Cap() + 1) + imax(c.Trigger, 1) - 1
	if trigEv >= len(d.evKind) {
		return "", ""
	}
	t := d.evID[trigEv]
	last := 0
	for _, o := range d.log {
		if o.Src == 'm' && o.Call == 'w' && o.Ev < n && o.ID > last {
			last = o.ID
		}
	}
	var rec *PRec
	for _, r := range d.recordings('m') {
		if r.StartEv >= n {
			if rec != nil {
				if r.StartEv <= trigEv+c.MinF()+2 && len(sfx) > 0 && false {
					return "", ""
				}
				continue
			}
			rec = r
		}
	}
	if rec == nil {
		return "C12:recovery:motion-not-recorded", fmt.Sprintf("after the faulty prefix, %d consecutive motion frames (trigger-frames %d) in an open window with working storage did not start a recording | motion trace: %s", imax(c.Trigger, 1), c.Trigger, d.sinkTrace('m'))
	}
	if rec.StartEv != trigEv {
		return "C12:recovery:wrong-trigger", fmt.Sprintf("after the faulty prefix the recording started at event %d, expected event %d | motion trace: %s", rec.StartEv+1, trigEv+1, d.sinkTrace('m'))
	}
	first := imax(imax(t-(c.Cap()-1), last+1), 1)
	pend := imax(1, imin(c.MinF(), c.MaxF()))
	wantLast := t + pend - 1
	if len(rec.IDs) == 0 || rec.IDs[0] != first || rec.IDs[len(rec.IDs)-1] != wantLast || len(rec.IDs) != wantLast-first+1 || rec.StopEv != trigEv+pend-1 {
		return "C12:recovery:wrong-recording", fmt.Sprintf("after the faulty prefix the recording holds frames %v (stop at event %d), expected %d..%d and stop at event %d", rec.IDs, rec.StopEv+1, first, wantLast, trigEv+pend)
	}
	return "", ""
}

type c12Case struct {
	PCase
	PrefixLen int `json:"prefix_len"`
}

func runC12(c c12Case) (string, string, *PDrv) {
	d := NewPDrv(c.PCase)
	d.Run(c.Events[:c.PrefixLen])
	if sig, msg := oracleC12Protocol(d); sig != "" {
		return sig, msg, d
	}
	// all planned faults must have fired inside the prefix, otherwise the suffix is not fault-free
	for _, f := range d.faults {
		var s *monSink
		switch f.sink {
		case 'm':
			s = d.m
		case 'c':
			s = d.c
		default:
			s = d.t
		}
		if s.counts[f.call] < f.n {
			return "", "", d
		}
	}
	d.Run(c.Events[c.PrefixLen:])
	if sig, msg := oracleC12Protocol(d); sig != "" {
		return sig, msg + " (during the fault-free suffix)", d
	}
	if sig, msg := oracleC12Recovery(d, c.PrefixLen); sig != "" {
		return sig, msg, d
	}
	return "", "", d
}

func c12Replay(cj []byte) []ev.Violation {
	var c c12Case
	if err := json.Unmarshal(cj, &c); err != nil {
		panic(err)
	}
	if c.PrefixLen == 0 {
		// a case found by the fixpoint search holds the history only: the recovery suffix is appended here
		c.PrefixLen = len(c.Events)
		c.Events = append(append([]string{}, c.Events...), c12Suffix(c.Cfg)...)
	}
	sig, msg, _ := runC12(c)
	if sig == "" {
		return nil
	}
	return []ev.Violation{{Sig: sig, Msg: msg, Case: c}}
}

var sinkNames = map[byte]string{'m': "motion", 'c': "const", 't': "test"}
var callNames = map[byte]string{'k': "check", 's': "start", 'w': "write", 'x': "stop"}

// c12FaultTokens: every frame event with one failing call kind on one sink, bad frames and resets with a failing stop.
func c12FaultTokens() []string {
	var out []string
	for _, k := range []string{"1", "0"} {
		for _, f := range []string{"fmk", "fms", "fmw", "fmx", "fcs", "fcw", "fcx", "fts", "ftw", "ftx"} {
			out = append(out, k+f)
		}
	}
	return append(out, "Bfmx", "Bfcx", "Rfmx")
}

// oracleC12State: protocol on the history so far, plus the recovery clause from this state.
func oracleC12State(d *PDrv) (string, string) {
	if sig, msg := oracleC12Protocol(d); sig != "" {
		return sig, msg
	}
	n := len(d.tokens)
	all := append(append([]string{}, d.tokens...), c12Suffix(d.cfg)...)
	d2 := NewPDrv(PCase{Cfg: d.cfg, Events: all})
	d2.Run(all)
	if sig, msg := oracleC12Protocol(d2); sig != "" {
		return sig, msg + " (during the fault-free suffix)"
	}
	return oracleC12Recovery(d2, n)
}

func c12Run(r *ev.Run) {
	fixCfgs := []PCfg{
		{FPS: 1, Preview: 1, Trigger: 1, Min: 1, Max: 2, Via: "raw", Constant: true},
		{FPS: 1, Preview: 0, Trigger: 2, Min: 0, Max: 1, Via: "raw", Constant: true},
	}
	maxDev := 1
	if r.Thorough() {
		maxDev = 2
		fixCfgs = append(fixCfgs, PCfg{FPS: 2, Preview: 1, Trigger: 1, Min: 1, Max: 1, Via: "raw", Constant: true}, PCfg{FPS: 1, Preview: 1, Trigger: 1, Min: 1, Max: 2, Via: "raw"})
	}
	runProcFixpoint(r, "faults", fixCfgs, []string{"1", "0", "B", "R", "T"}, c12FaultTokens(), maxDev, nil, oracleC12State, func(d *PDrv) string { return "" }, 600000)
	L1, L2 := 6, 4
	if r.Thorough() {
		L1, L2 = 7, 6
	}
	cfgs := []PCfg{
		{FPS: 1, Preview: 1, Trigger: 1, Min: 1, Max: 2, Via: "raw", Constant: true},
		{FPS: 1, Preview: 1, Trigger: 1, Min: 1, Max: 2, Via: "raw"},
		{FPS: 1, Preview: 0, Trigger: 1, Min: 0, Max: 0, Via: "raw", Constant: true},
		{FPS: 2, Preview: 1, Trigger: 2, Min: 1, Max: 1, Via: "raw", Constant: true},
		{FPS: 1, Preview: 2, Trigger: 0, Min: 2, Max: 3, Via: "raw", Constant: true},
		{FPS: 1, Preview: 1, Trigger: 2, Min: 0, Max: 1, Via: "lepton", Constant: true},
	}
	if r.Thorough() {
		cfgs = append(cfgs, PCfg{FPS: 1, Preview: 1, Trigger: 3, Min: 2, Max: 2, Via: "raw", Constant: true}, PCfg{FPS: 3, Preview: 1, Trigger: 1, Min: 1, Max: 1, Via: "raw"})
	}
	r.Rule = fmt.Sprintf("real MotionProcessor via Process with three monitored sinks; every event string over {1 motion frame, 0 still frame, B bad frame, R reset, T test-recording request} of length <=%d with every placement of one failing sink call (sink x {check,start,write,stop} x call index), and of length <=%d with every pair of failing calls; continuous recorder on and off; then a fault-free suffix (reset, cap+1 still frames, trigger motion frames, min+2 still frames) that must be recorded exactly as the reference predicts. Plus an explicit-state search to a FIXPOINT over the same events with per-event failing calls (<=1 quick / <=2 thorough faults per history): histories of any length, so faults at the end of a 21-frame test recording or after many continuous files are covered, with the recovery clause evaluated from every reachable state. Oracle: per-sink two-state protocol monitor, recovered panics, recovery clause. Non-trivial = execution in which a planned fault fired.", L1, L2)
	r.Bounds["depth_single_fault"] = L1
	r.Bounds["depth_fault_pairs"] = L2
	r.Bounds["configurations"] = len(cfgs)
	r.Assumptions = []string{"a sink whose StopRecording returns an error is nevertheless closed (this is how CPTVFileRecorder behaves)", "a redundant stop on a closed sink is allowed by the statement"}
	type job struct {
		cfg PCfg
		pre string
		L   int
		two bool
	}
	var jobs []job
	for _, c := range cfgs {
		for _, p := range allStrings("10BRT", 2) {
			jobs = append(jobs, job{c, p, L1, false})
			jobs = append(jobs, job{c, p, L2, true})
		}
	}
	r.Parallel(len(jobs), func(w *ev.Worker, i int) {
		j := jobs[i]
		var tn treeNodes
		enumStrings("10BRT", j.L, []byte(j.pre), func(s []byte) {
			toks := make([]string, len(s))
			for k, b := range s {
				toks[k] = string(b)
			}
			w.States += tn.add(s)
			// fault-free run to learn the call counts
			base := NewPDrv(PCase{Cfg: j.cfg, Events: toks})
			base.Run(toks)
			type fl struct {
				sink, call byte
				n          int
			}
			var singles []fl
			for _, sk := range []*monSink{base.m, base.c, base.t} {
				for _, call := range []byte{'k', 's', 'w', 'x'} {
					for n := 1; n <= sk.counts[call]; n++ {
						singles = append(singles, fl{sk.name, call, n})
					}
				}
			}
			all := append(append([]string{}, toks...), c12Suffix(j.cfg)...)
			try := func(fs []PFault) {
				c := c12Case{PCase: PCase{Cfg: j.cfg, Events: all, Faults: fs}, PrefixLen: len(toks)}
				sig, msg, d := runC12(c)
				w.Evaluations++
				w.Transitions += int64(len(d.evKind))
				w.Outcome(d.traceHash(uint64(len(fs))))
				if len(fs) > 0 {
					w.Nontrivial++
				}
				if sig != "" {
					w.Violate(sig, fmt.Sprintf("%+v events %s faults %v: %s", j.cfg, strings.Join(toks, " "), fs, msg), c, len(toks)+2*len(fs))
				} else if w.WantSample() && len(fs) > 0 {
					w.Sample(map[string]interface{}{"cfg": j.cfg, "events": strings.Join(toks, " "), "faults": fs, "motion_trace": d.sinkTrace('m'), "continuous_trace": d.sinkTrace('c')})
				}
			}
			if !j.two {
				try(nil)
				for _, f := range singles {
					try([]PFault{{sinkNames[f.sink], callNames[f.call], f.n}})
				}
			} else {
				for a := 0; a < len(singles); a++ {
					for b := a + 1; b < len(singles); b++ {
						try([]PFault{{sinkNames[singles[a].sink], callNames[singles[a].call], singles[a].n}, {sinkNames[singles[b].sink], callNames[singles[b].call], singles[b].n}})
					}
				}
			}
		})
	})
}

// ---------------------------------------------------------------- C13 (processor level)

func withoutBad(toks []string) []string {
	var out []string
	for _, t := range toks {
		if t[0] != 'B' {
			out = append(out, t)
		}
	}
	return out
}

func oracleC13(d *PDrv) (string, string) {
	if d.panicMsg != "" {
		return "C13:panic", d.panicMsg
	}
	// (1) a rejected frame never reaches a sink
	for _, o := range d.log {
		if o.Call == 'w' && o.Src != 'L' && o.ID <= 0 {
			return "C13:bad-frame-recorded", fmt.Sprintf("rejected frame %d was written to the %s sink", o.ID, sinkName(o.Src))
		}
	}
	// (2) Process() reports the bad frame as BadFrameErr, and nil for valid frames
	pi := 0
	for ev, k := range d.evKind {
		if k != '1' && k != '0' && k != 'B' {
			continue
		}
		if pi >= len(d.procErr) {
			break
		}
		err := d.procErr[pi]
		pi++
		_, isBad := err.(*lepton3.BadFrameErr)
		if k == 'B' && !isBad {
			return "C13:not-reported", fmt.Sprintf("event %d: a frame with a zero pixel inside the border was not reported as a bad frame (err=%v)", ev+1, err)
		}
		if k != 'B' && err != nil {
			return "C13:valid-frame-rejected", fmt.Sprintf("event %d: valid frame rejected: %v", ev+1, err)
		}
	}
	// (3) a bad frame ends the motion recording in progress, cleanly, before the next frame
	open := false
	for ev := range d.evKind {
		for _, o := range d.log {
			if o.Ev != ev || o.Src != 'm' {
				continue
			}
			if o.Call == 's' && o.OK {
				open = true
			}
			if o.Call == 'x' {
				open = false
			}
		}
		if d.evKind[ev] == 'B' && open {
			return "C13:recording-not-ended", fmt.Sprintf("event %d: bad frame did not end the motion recording in progress | trace %s", ev+1, d.sinkTrace('m'))
		}
	}
	return "", ""
}

// oracleC13Diff: the stream with the bad frames deleted gives the same detection results
// on the surviving frames and, when no recording was open at any bad frame, the same
// motion-sink trace (nothing entered the detector history or the pre-trigger ring).
func oracleC13Diff(d *PDrv, toks []string) (string, string) {
	d2 := NewPDrv(PCase{Cfg: d.cfg, Events: withoutBad(toks)})
	d2.Run(withoutBad(toks))
	motionByID := func(x *PDrv) map[int]bool {
		m := map[int]bool{}
		mo := x.motionOf()
		for ev, k := range x.evKind {
			if k == '1' || k == '0' {
				m[x.evID[ev]] = mo[ev]
			}
		}
		return m
	}
	m1, m2 := motionByID(d), motionByID(d2)
	for id, v := range m2 {
		if m1[id] != v {
			return "C13:detector-history-polluted", fmt.Sprintf("frame %d: motion=%v with the bad frames present, %v with them deleted", id, m1[id], v)
		}
	}
	// was a recording open at some bad frame?
	open, cut := false, false
	for ev := range d.evKind {
		if d.evKind[ev] == 'B' && open {
			cut = true
		}
		for _, o := range d.log {
			if o.Ev == ev && o.Src == 'm' {
				if o.Call == 's' && o.OK {
					open = true
				}
				if o.Call == 'x' {
					open = false
				}
			}
		}
	}
	if !cut {
		tr := func(x *PDrv) string {
			var sb strings.Builder
			for _, o := range x.log {
				if o.Src == 'm' && o.Call != 'k' {
					fmt.Fprintf(&sb, "%c%d ", o.Call, o.ID)
				}
			}
			return sb.String()
		}
		if tr(d) != tr(d2) {
			return "C13:pretrigger-polluted", fmt.Sprintf("motion-sink trace differs from the stream with the bad frames deleted: %s vs %s", tr(d), tr(d2))
		}
	} else {
		if sig, msg := oracleC01(d); sig != "" {
			return "C13:after-cut:" + sig, msg
		}
		if sig, msg := oracleC02(d); sig != "" {
			return "C13:after-cut:" + sig, msg
		}
	}
	return "", ""
}

func c13Oracles(toks *[]string) []procOracle {
	return []procOracle{oracleC13, func(d *PDrv) (string, string) { return oracleC13Diff(d, d.tokens) }}
}

// ---------------------------------------------------------------- C17

func oracleC17(d *PDrv) (string, string) {
	if d.panicMsg != "" {
		return "C17:panic", d.panicMsg
	}
	maxF := d.cfg.MaxF()
	if d.cfg.Constant {
		// continuous sink: Start, exactly maxF+1 writes, Stop, repeated; concatenation = 1..n
		next := 1
		inFile := -1 // -1 closed
		for _, o := range d.log {
			if o.Src != 'c' {
				continue
			}
			switch o.Call {
			case 's':
				if inFile >= 0 {
					return "C17:continuous:start-while-open", "continuous file started while one is open | " + d.sinkTrace('c')
				}
				inFile = 0
			case 'w':
				if inFile < 0 {
					return "C17:continuous:write-while-closed", "continuous sink written while closed | " + d.sinkTrace('c')
				}
				if o.ID != next {
					return "C17:continuous:not-tiling", fmt.Sprintf("continuous files hold frame %d where frame %d is due (every frame exactly once, in order) | %s", o.ID, next, d.sinkTrace('c'))
				}
				next++
				inFile++
				if inFile > maxF+1 {
					return "C17:continuous:file-too-long", fmt.Sprintf("continuous file holds more than max-secs*fps+1 = %d frames | %s", maxF+1, d.sinkTrace('c'))
				}
			case 'x':
				if inFile >= 0 && inFile != maxF+1 {
					return "C17:continuous:file-length", fmt.Sprintf("continuous file closed with %d frames, expected %d | %s", inFile, maxF+1, d.sinkTrace('c'))
				}
				inFile = -1
			}
		}
		if next != d.nextID+1 {
			return "C17:continuous:frame-missing", fmt.Sprintf("continuous files hold frames 1..%d but %d valid frames were processed | %s", next-1, d.nextID, d.sinkTrace('c'))
		}
	}
	// test sink: request before frame k => Start at k, ids k..k+20, Stop
	pending := false
	cnt := -1
	for ev, k := range d.evKind {
		if k == 'T' {
			pending = true
			continue
		}
		var calls []PObs
		for _, o := range d.log {
			if o.Ev == ev && o.Src == 't' {
				calls = append(calls, o)
			}
		}
		if k != '1' && k != '0' {
			if len(calls) > 0 {
				return "C17:test:unexpected-call", fmt.Sprintf("test sink called during event %d (%c)", ev+1, k)
			}
			continue
		}
		want := ""
		if pending && cnt < 0 {
			want += "s"
			cnt = 0
			pending = false
		}
		if cnt >= 0 {
			want += "w"
			cnt++
			if cnt == 21 {
				want += "x"
				cnt = -1
			}
		}
		got := ""
		for _, o := range calls {
			got += string(o.Call)
			if o.Call == 'w' && o.ID != d.evID[ev] {
				return "C17:test:wrong-frame", fmt.Sprintf("test recording wrote frame %d while frame %d was processed", o.ID, d.evID[ev])
			}
		}
		if got != want {
			return "C17:test:not-21-consecutive-frames", fmt.Sprintf("event %d (frame %d): test sink calls %q, expected %q (one file of exactly 21 consecutive frames starting with the next processed frame) | %s", ev+1, d.evID[ev], got, want, d.sinkTrace('t'))
		}
	}
	return "", ""
}

// oracleC17Diff: the motion-sink trace equals that of the run without the test-recording requests.
func oracleC17Diff(d *PDrv) (string, string) {
	var noT []string
	has := false
	for _, t := range d.tokens {
		if t[0] == 'T' {
			has = true
			continue
		}
		noT = append(noT, t)
	}
	if !has {
		return "", ""
	}
	d2 := NewPDrv(PCase{Cfg: d.cfg, Events: noT})
	d2.Run(noT)
	tr := func(x *PDrv) string {
		var sb strings.Builder
		for _, o := range x.log {
			if o.Src == 'm' {
				fmt.Fprintf(&sb, "%c%d ", o.Call, o.ID)
			}
		}
		return sb.String()
	}
	if tr(d) != tr(d2) {
		return "C17:test-recording-disturbs-motion-recording", fmt.Sprintf("motion-sink trace with test-recording requests: %s; without: %s", tr(d), tr(d2))
	}
	return "", ""
}

// c17Summary: the request-free twin run's state (the differential oracle compares against it).
func c17Summary(d *PDrv) string {
	var noT []string
	for _, t := range d.tokens {
		if t[0] != 'T' {
			noT = append(noT, t)
		}
	}
	d2 := NewPDrv(PCase{Cfg: d.cfg, Events: noT})
	d2.Run(noT)
	return d.recSummary() + "|twin:" + d2.procKey()
}

func c13Summary(d *PDrv) string {
	nb := withoutBad(d.tokens)
	d2 := NewPDrv(PCase{Cfg: d.cfg, Events: nb})
	d2.Run(nb)
	// was a recording cut by a bad frame so far? (the differential oracle branches on it)
	open, cut := false, false
	for ev := range d.evKind {
		if d.evKind[ev] == 'B' && open {
			cut = true
		}
		for _, o := range d.log {
			if o.Ev == ev && o.Src == 'm' {
				if o.Call == 's' && o.OK {
					open = true
				}
				if o.Call == 'x' {
					open = false
				}
			}
		}
	}
	return fmt.Sprintf("%s|cut=%v|twin:%s|%s", d.recSummary(), cut, d2.procKey(), d2.recSummary())
}

func c13Run(r *ev.Run) {
	L, D := 10, 2
	fps := []int{1}
	if r.Thorough() {
		L, D = 12, 3
		fps = []int{1, 2}
	}
	r.Rule = fmt.Sprintf("processor level: every event string over {1,0} of length %d with at most %d bad frames (B) at any position relative to triggers, pre-trigger window, recordings and stops (also with the interrupted recording's StopRecording failing), through Process with the harness parser and with the real lepton3.ParseRawFrame on 4x4 frames, recorder lattice; continuous recorder and test recordings on in a second pass. Oracle: bad ids never reach a sink, Process reports BadFrameErr / nil, an open motion recording is stopped within the bad-frame event, differential against the stream with the bad frames deleted (same detection results; same sink trace when no recording was cut; C01/C02 formula after a cut). Plus an explicit-state search to a FIXPOINT over {1,0,B} (any number of bad frames, streams of any length) for the fps-1 lattice, keyed on the pair (run, run with bad frames deleted). Parser level (Lepton big-endian): see parser_* counters. Non-trivial = execution with a recording.", L, D)
	r.Bounds["depth"] = L
	r.Bounds["max_bad_frames"] = D
	var jobs []procJob
	jobs = append(jobs, jobsFor(procLattice(fps, "raw", ""), []string{"1", "0"}, []string{"B"}, L, D)...)
	// the bad frame must be reported as such also when closing the recording it interrupts fails
	jobs = append(jobs, jobsFor(procLattice([]int{1}, "raw", ""), []string{"1", "0"}, []string{"Bfmx"}, L-2, 1)...)
	var lep []PCfg
	for _, c := range procLattice([]int{1}, "lepton", "") {
		if c.Min <= 1 && c.Max <= 2 {
			lep = append(lep, c)
		}
	}
	jobs = append(jobs, jobsFor(lep, []string{"1", "0"}, []string{"B"}, L-2, D)...)
	var cons []PCfg
	for _, c := range lep {
		c.Constant = true
		cons = append(cons, c)
	}
	jobs = append(jobs, jobsFor(cons, []string{"1", "0"}, []string{"B", "T"}, L-2, D)...)
	r.Bounds["configurations"] = len(procLattice(fps, "raw", "")) + len(lep) + len(cons)
	c13Both := func(d *PDrv) (string, string) {
		if s, m := oracleC13(d); s != "" {
			return s, m
		}
		return oracleC13Diff(d, d.tokens)
	}
	runProcFixpoint(r, "bad_frames", procLattice([]int{1}, "raw", ""), []string{"1", "0", "B"}, nil, 0, nil, c13Both, c13Summary, 300000)
	runProcJobs(r, jobs, []procOracle{oracleC13, func(d *PDrv) (string, string) { return oracleC13Diff(d, d.tokens) }}, hasRecording)
	c13Parser(r)
}

var c17Tails = []string{"00000000000000000000000", "11111111111111111111111", "10101010101010101010101", "11000000000001111000000", "00000000001000000000010", "0R00000010000000R000000"}

func c17Run(r *ev.Run) {
	P := 6
	if r.Thorough() {
		P = 8
	}
	var cfgs []PCfg
	for _, fm := range [][2]int{{1, 0}, {1, 1}, {1, 2}, {1, 3}, {1, 4}, {2, 1}, {2, 2}, {3, 1}} {
		for _, con := range []bool{true, false} {
			for _, variant := range []string{"", "closed", "throttled"} {
				c := PCfg{FPS: fm[0], Preview: 1, Trigger: 1, Min: imin(1, fm[1]), Max: fm[1], Via: "raw", Constant: con}
				switch variant {
				case "closed":
					c.Window = "closed"
				case "throttled":
					c.Throttle = &TCfg{FPS: fm[0], BucketSecs: 1, MinLenSecs: 2, RefillSecs: 3600}
				}
				cfgs = append(cfgs, c)
			}
		}
	}
	r.Rule = fmt.Sprintf("real MotionProcessor via Process, valid frames only: every prefix over {1,0,R} of length %d, then a test-recording request, one of %d tail patterns of 23 frames (still, continuous motion, alternating, bursts, resets), a second request and a second tail; continuous recorder on/off x {window open, window closed, motion sink behind a real ThrottledRecorder with an exhausted bucket}; max-secs 0..4, fps 1..3. Plus an explicit-state search to a FIXPOINT over {1,0,R,T} with non-overlapping requests (streams of any length, a request at every offset relative to trigger, recording, stop and continuous-file boundary), keyed on the pair (run, request-free twin). Oracle: continuous sink = Start, exactly max-secs*fps+1 writes, Stop, repeated, concatenation = every frame once in order; test sink = exactly 21 consecutive frames from the next processed frame; motion-sink trace identical to the run without requests. Non-trivial = every execution (all contain two test recordings).", P, len(c17Tails))
	r.Bounds["prefix_depth"] = P
	r.Bounds["configurations"] = len(cfgs)
	var fixCfgs []PCfg
	for _, c := range cfgs {
		if c.Throttle == nil && (c.FPS == 1 || r.Thorough()) {
			fixCfgs = append(fixCfgs, c)
		}
	}
	both := func(d *PDrv) (string, string) {
		if s, m := oracleC17(d); s != "" {
			return s, m
		}
		return oracleC17Diff(d)
	}
	noOverlap := func(d *PDrv, tok string) bool { return tok != "T" || !(d.mp.StartSnapshot || d.mp.SnapshotRecording) }
	runProcFixpoint(r, "continuous_and_test", fixCfgs, []string{"1", "0", "R", "T"}, nil, 0, noOverlap, both, c17Summary, 400000)
	type job struct {
		cfg PCfg
		pre string
	}
	var jobs []job
	for _, c := range cfgs {
		for _, p := range allStrings("10R", 2) {
			jobs = append(jobs, job{c, p})
		}
	}
	r.Parallel(len(jobs), func(w *ev.Worker, i int) {
		j := jobs[i]
		var tn treeNodes
		enumStrings("10R", P, []byte(j.pre), func(s []byte) {
			w.States += tn.add(s)
			for _, t1 := range c17Tails {
				for _, t2 := range c17Tails[:3] {
					var toks []string
					for _, b := range s {
						toks = append(toks, string(b))
					}
					toks = append(toks, "T")
					for _, b := range t1 {
						toks = append(toks, string(b))
					}
					toks = append(toks, "T")
					for _, b := range t2 {
						toks = append(toks, string(b))
					}
					c := PCase{Cfg: j.cfg, Events: toks}
					d := NewPDrv(c)
					d.Run(toks)
					w.Evaluations++
					w.Nontrivial++
					w.Transitions += int64(len(toks))
					w.Outcome(d.traceHash(ev.Hash(j.cfg)))
					for _, o := range []procOracle{oracleC17, oracleC17Diff} {
						if sig, msg := o(d); sig != "" {
							w.Violate(sig, fmt.Sprintf("%+v events %s: %s", j.cfg, strings.Join(toks, ""), msg), c, len(toks))
							break
						}
					}
					if w.WantSample() {
						w.Sample(map[string]interface{}{"cfg": j.cfg, "events": strings.Join(toks, ""), "continuous_trace": d.sinkTrace('c'), "test_trace": d.sinkTrace('t')})
					}
				}
			}
		})
	})
}

func init() {
	register(&Check{Property: "C12", Run: c12Run, Replay: c12Replay})
	register(&Check{Property: "C13", Run: c13Run, Replay: func(cj []byte) []ev.Violation {
		var probe struct {
			Parser string `json:"parser"`
		}
		if json.Unmarshal(cj, &probe) == nil && probe.Parser != "" {
			return c13ParserReplay(cj)
		}
		return procReplay([]procOracle{oracleC13, func(d *PDrv) (string, string) { return oracleC13Diff(d, d.tokens) }})(cj)
	}})
	register(&Check{Property: "C17", Run: c17Run, Replay: procReplay([]procOracle{oracleC17, oracleC17Diff})})
}
