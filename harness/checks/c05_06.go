package checks

import (
	"encoding/json"
	"fmt"
	"strings"

	"verifkit/ev"
)

var tTokens = []string{"W", "S", "X", "a0", "a1", "a2", "a3", "Wf", "Sf"}

func runTCase(c TCase) (sig, msg string, step int, d *TDrv) {
	defer func() {
		if p := recover(); p != nil {
			sig, msg = "panic", fmt.Sprintf("panic at step %d: %v", step, p)
		}
	}()
	d = NewTDrv(c.Cfg)
	for i, t := range c.Events {
		step = i + 1
		if !d.Enabled(t) {
			return "harness:ill-formed", "token not enabled: " + t, step, d
		}
		if s, m := d.Apply(t); s != "" {
			return s, fmt.Sprintf("%+v events %s: step %d: %s", c.Cfg, strings.Join(c.Events[:i+1], " "), i+1, m), step, d
		}
	}
	return "", "", len(c.Events), d
}

func tReplay(prefix string) func(cj []byte) []ev.Violation {
	return func(cj []byte) []ev.Violation {
		var probe struct {
			Cfg struct {
				Via string `json:"via"`
			} `json:"cfg"`
		}
		if json.Unmarshal(cj, &probe) == nil && probe.Cfg.Via != "" {
			return procReplay([]procOracle{oracleC05Composed})(cj)
		}
		var c TCase
		if err := json.Unmarshal(cj, &c); err != nil {
			panic(err)
		}
		sig, msg, _, _ := runTCase(c)
		if sig == "" || !(strings.HasPrefix(sig, prefix) || sig == "panic") {
			return nil
		}
		return []ev.Violation{{Sig: sig, Msg: msg, Case: c}}
	}
}

var tCfgsExact = []TCfg{{1, 2, 1, 1}, {1, 3, 2, 2}, {2, 2, 1, 4}, {1, 2, 2, 1}, {1, 1, 2, 2}, {1, 4, 2, 2}, {1, 3, 3, 3}, {1, 4, 4, 2}, {3, 2, 1, 3}, {1, 5, 3, 6}}
var tCfgsAwkward = []TCfg{{3, 1, 1, 7}, {1, 4, 3, 11}}

// tTree enumerates every well-formed token string of length L with at most D failing-start tokens.
func tTree(r *ev.Run, prefix string, cfgs []TCfg, L, D int) {
	type job struct {
		cfg TCfg
		pre []string
	}
	var jobs []job
	for _, c := range cfgs {
		for _, a := range tTokens {
			for _, b := range tTokens {
				jobs = append(jobs, job{c, []string{a, b}})
			}
		}
	}
	r.Parallel(len(jobs), func(w *ev.Worker, i int) {
		j := jobs[i]
		buf := make([]string, L)
		copy(buf, j.pre)
		// validate the prefix against the upstream grammar
		{
			d := NewTDrv(j.cfg)
			faults := 0
			for _, t := range j.pre {
				if !d.Enabled(t) {
					return
				}
				if len(t) > 1 && t[1] == 'f' {
					faults++
				}
				if s, _ := d.Apply(t); s != "" {
					break
				}
			}
			if faults > D {
				return
			}
		}
		var rec func(n, faults int)
		rec = func(n, faults int) {
			if n == L {
				c := TCase{Cfg: j.cfg, Events: buf}
				sig, msg, step, d := runTCase(c)
				w.Evaluations++
				w.Transitions += int64(step)
				w.States += 1
				if d != nil {
					w.Outcome(ev.Hash(j.cfg, d.forwarded, d.mon, d.upOpen, d.refBaseOpen))
					if d.forwarded > 0 {
						w.Nontrivial++
					}
				}
				if sig != "" && (strings.HasPrefix(sig, prefix) || sig == "panic") {
					cc := TCase{Cfg: j.cfg, Events: append([]string{}, buf[:step]...)}
					w.Violate(sig, msg, cc, step)
				} else if sig == "" && w.WantSample() && d.forwarded > 2 {
					w.Sample(map[string]interface{}{"cfg": j.cfg, "events": strings.Join(buf, " "), "frames_forwarded": d.forwarded})
				}
				return
			}
			// enabledness depends only on the upstream open/closed state, which is a function of the prefix
			open := upstreamOpenAfter(j.cfg, buf[:n])
			for _, t := range tTokens {
				isF := len(t) > 1 && t[1] == 'f'
				if isF && faults >= D {
					continue
				}
				if (t[0] == 'S') == open && t[0] != 'a' {
					if t[0] == 'S' {
						continue
					}
				}
				if (t[0] == 'W' || t[0] == 'X') && !open {
					continue
				}
				buf[n] = t
				nf := faults
				if isF {
					nf++
				}
				rec(n+1, nf)
			}
		}
		f0 := 0
		for _, t := range j.pre {
			if len(t) > 1 && t[1] == 'f' {
				f0++
			}
		}
		rec(len(j.pre), f0)
	})
}

// upstreamOpenAfter replays the prefix on the real object to learn whether the upstream
// believes a recording is open (a start that returned an error leaves it closed).
func upstreamOpenAfter(cfg TCfg, pre []string) bool {
	d := NewTDrv(cfg)
	for _, t := range pre {
		if s, _ := d.Apply(t); s != "" {
			break
		}
	}
	return d.upOpen
}

// tFixpoint: explicit-state BFS over the same alphabet for the exact-tick configurations.
func tFixpoint(r *ev.Run, prefix string, cfgs []TCfg, maxStates int) map[string]interface{} {
	res := make([]map[string]interface{}, len(cfgs))
	r.Parallel(len(cfgs), func(w *ev.Worker, i int) {
		cfg := cfgs[i]
		seen := map[string]bool{}
		d0 := NewTDrv(cfg)
		seen[d0.Key()] = true
		frontier := [][]string{nil}
		trans, conv := 0, true
		maxDepth := 0
		for len(frontier) > 0 {
			hist := frontier[0]
			frontier = frontier[1:]
			for _, t := range tTokens {
				d := NewTDrv(cfg)
				bad := false
				for _, h := range hist {
					if s, _ := d.Apply(h); s != "" {
						bad = true
						break
					}
				}
				if bad || !d.Enabled(t) {
					continue
				}
				sig, msg := d.Apply(t)
				trans++
				w.Evaluations++
				w.Transitions++
				if sig != "" {
					if strings.HasPrefix(sig, prefix) {
						ev2 := append(append([]string{}, hist...), t)
						w.Violate(sig, fmt.Sprintf("%+v events %s: %s", cfg, strings.Join(ev2, " "), msg), TCase{Cfg: cfg, Events: ev2}, len(ev2))
					}
					continue
				}
				k := d.Key()
				if !seen[k] {
					seen[k] = true
					w.States++
					w.Nontrivial++
					nh := append(append([]string{}, hist...), t)
					if len(nh) > maxDepth {
						maxDepth = len(nh)
					}
					frontier = append(frontier, nh)
				}
			}
			if len(seen) > maxStates {
				conv = false
				break
			}
		}
		res[i] = map[string]interface{}{"cfg": cfg, "states": len(seen), "transitions": trans, "converged": conv, "longest_shortest_path": maxDepth}
	})
	out := map[string]interface{}{}
	for i, m := range res {
		out[fmt.Sprint(i)] = m
		if m != nil && m["converged"] == false {
			r.MarkCapped()
		}
	}
	return out
}

func c0506Run(prop, prefix string) func(r *ev.Run) {
	return func(r *ev.Run) {
		L, D := 7, 1
		if r.Thorough() {
			L, D = 9, 2
		}
		r.Rule = fmt.Sprintf("real ThrottledRecorder with injected ratelimit.Clock; alphabet {S,W,X upstream calls restricted to what the motion processor can emit, Sf/Wf = wrapped recorder's start fails during this call, clock advances of half a tick / one tick / min-length ticks (= min-refill) / 10*capacity ticks}; (a) explicit-state BFS to a fixpoint on canonical keys for 10 exact-tick parameter sets (capacity 1..6 frames, min length 1..4 frames, rates 0.5..2 frames/s) (covers request/clock schedules of any length), (b) every well-formed string of length %d with <=%d failing starts for those and 2 awkward-rate sets. C05 oracle: arrival-curve monitor (bucket + refill earned + 2 frames, 1%% rate margin for awkward rates) on frames reaching the wrapped recorder, checked on every interval. C06 oracle: step-by-step reference of the statement (transparent with budget, cut on 0 tokens, restart only with a full clip, one event per suppressed start/cut, pairing). Non-trivial = new canonical state / execution forwarding frames.", L, D)
		r.Bounds["tree_depth"] = L
		r.Bounds["max_failing_starts"] = D
		r.Assumptions = []string{"budget is read through ratelimit.Bucket.Available() at the same clock instant as the request (idempotent)", "fixpoint key reads juju/ratelimit's private fields availableTokens/latestTick/startTime/fillInterval (library pinned by go.mod); tree mode does not"}
		func() {
			defer func() {
				if p := recover(); p != nil {
					r.Extra["fixpoint"] = fmt.Sprintf("disabled: %v", p)
					r.MarkCapped()
				}
			}()
			r.Extra["fixpoint"] = tFixpoint(r, prefix, tCfgsExact, 400000)
		}()
		tTree(r, prefix, append(append([]TCfg{}, tCfgsExact...), tCfgsAwkward...), L, D)
		if prop == "C05" {
			c05Composed(r)
		}
	}
}

func init() {
	register(&Check{Property: "C05", Run: c0506Run("C05", "C05"), Replay: tReplay("C05")})
	register(&Check{Property: "C06", Run: c0506Run("C06", "C06"), Replay: tReplay("C06")})
}
