package checks

import (
	"encoding/json"
	"fmt"

	config "github.com/TheCacophonyProject/go-config"
	"github.com/TheCacophonyProject/go-cptv/cptvframe"
	"github.com/TheCacophonyProject/thermal-recorder/motion"
	"github.com/TheCacophonyProject/thermal-recorder/recorder"
	"github.com/TheCacophonyProject/window"

	"verifkit/ev"
)

// C08 — edge-border pixels and sub-threshold pixels never influence detection.
// Relational: two streams that differ only in such pixels must give identical
// detection results, identical recording boundaries and (dynamic threshold) identical
// interior background / threshold.

type c08Case struct {
	Cfg  DCfg     `json:"cfg"`
	A    []DFrame `json:"stream_a"`
	B    []DFrame `json:"stream_b"`
	Kind string   `json:"kind"` // "border" or "cold"
}

type c08Sink struct {
	trace []string
	c     DCfg
}

func (s *c08Sink) CheckCanRecord() error { return nil }
func (s *c08Sink) StartRecording(bg *cptvframe.Frame, thr uint16) error {
	t := fmt.Sprintf("S thr=%d bg=", thr)
	for y := 0; y < s.c.ResY; y++ {
		for x := 0; x < s.c.ResX; x++ {
			if s.c.interior(y, x) {
				t += fmt.Sprintf("%d,", bg.Pix[y][x])
			}
		}
	}
	s.trace = append(s.trace, t)
	return nil
}
func (s *c08Sink) WriteFrame(f *cptvframe.Frame) error {
	s.trace = append(s.trace, fmt.Sprint("W", f.Status.FrameCount))
	return nil
}
func (s *c08Sink) StopRecording() error { s.trace = append(s.trace, "X"); return nil }

// observe runs one stream through (a) the bare detector, (b) a processor with a recording sink.
func c08Observe(c DCfg, fs []DFrame) (det []bool, deep []string, sink []string) {
	conf := c.motionConf()
	d := motion.NewMotionDetector(conf, c.Preview, c.cam())
	for i, f := range fs {
		if f.Reset {
			d.Reset(c.cam())
		}
		det = append(det, d.Detect(f.frame(c, i+1)))
		if c.Dynamic {
			if bg, thr, ok := detState(d); ok {
				s := fmt.Sprintf("thr=%d bg=", thr)
				for y := 0; y < c.ResY; y++ {
					for x := 0; x < c.ResX; x++ {
						if c.interior(y, x) {
							s += fmt.Sprintf("%d,", bg.Pix[y][x])
						}
					}
				}
				deep = append(deep, s)
			}
		}
	}
	w, _ := window.New("12:00", "12:00", 0, 0)
	rc := &recorder.RecorderConfig{MinSecs: 1, MaxSecs: 2, PreviewSecs: 1, Window: *w}
	sk := &c08Sink{c: c}
	mp := motion.NewMotionProcessor(nil, &conf, rc, &config.Location{}, nil, sk, c.cam(), nil, nil)
	for i, f := range fs {
		if f.Reset {
			mp.Reset(c.cam())
		}
		mp.ProcessFrame(f.frame(c, i+1))
	}
	return det, deep, sk.trace
}

func runC08(c c08Case) (sig, msg string) {
	defer func() {
		if p := recover(); p != nil {
			sig, msg = "C08:"+c.Kind+":detector-panic", fmt.Sprintf("%+v: the detector or processor panicked: %v | A=%s | B=%s", c.Cfg, p, fmtStream(c.A), fmtStream(c.B))
		}
	}()
	d1, p1, s1 := c08Observe(c.Cfg, c.A)
	d2, p2, s2 := c08Observe(c.Cfg, c.B)
	what := "edge-border"
	if c.Kind == "cold" {
		what = "sub-threshold"
	}
	sfx := ""
	for _, f := range c.A {
		if f.FFC || f.Reset {
			sfx = ":with-ffc-or-reset"
		}
	}
	if fmt.Sprint(d1) != fmt.Sprint(d2) {
		return "C08:" + c.Kind + ":detection-differs" + sfx, fmt.Sprintf("%+v: streams differing only in %s pixels give detection %v vs %v | A=%s | B=%s", c.Cfg, what, d1, d2, fmtStream(c.A), fmtStream(c.B))
	}
	if fmt.Sprint(s1) != fmt.Sprint(s2) {
		return "C08:" + c.Kind + ":recording-differs" + sfx, fmt.Sprintf("%+v: streams differing only in %s pixels give sink traces %v vs %v | A=%s | B=%s", c.Cfg, what, s1, s2, fmtStream(c.A), fmtStream(c.B))
	}
	if fmt.Sprint(p1) != fmt.Sprint(p2) {
		return "C08:" + c.Kind + ":background-or-threshold-differs" + sfx, fmt.Sprintf("%+v: streams differing only in %s pixels give interior background/threshold %v vs %v | A=%s | B=%s", c.Cfg, what, p1, p2, fmtStream(c.A), fmtStream(c.B))
	}
	return "", ""
}

func c08Replay(cj []byte) []ev.Violation {
	var c c08Case
	if err := json.Unmarshal(cj, &c); err != nil {
		panic(err)
	}
	if sig, msg := runC08(c); sig != "" {
		return []ev.Violation{{Sig: sig, Msg: msg, Case: c}}
	}
	return nil
}

func cloneStream(fs []DFrame) []DFrame {
	out := make([]DFrame, len(fs))
	for i, f := range fs {
		out[i] = f
		out[i].Pix = copyGrid(f.Pix)
	}
	return out
}

func c08Run(r *ev.Run) {
	L := 3
	r.Rule = "pairs of streams through the real detector and a real MotionProcessor: base streams = every sequence of 3 frames with one varying interior pixel over 6 boundary values (4 frames thorough), resolutions 5x4/4x5 edge 1 and 6x5 edge 2, fixed threshold (warmer-only x one-diff) and dynamic threshold (min/max unset and set); perturbations: (i) every single border pixel x every frame (and all frames at once) rewritten with {0,1,T,65535}, all border pixels at once; (ii) fixed threshold: every interior pixel at or below T replaced by another value <= T ({0,1,T-1,T}), every frame. Oracle: identical per-frame Detect results, identical sink traces (start/stop positions, written ids, threshold and interior background at each start), identical interior background and threshold after every frame (deep layer). Stage 2: the same oracle on streams of 4 frames carrying every pattern of {normal, inside an FFC period, camera reset before the frame} per frame, one varying interior pixel, border perturbations (single border pixels - quick: five of them - and the whole border, one frame or all frames, values 0 and 65535), dynamic and fixed threshold. Non-trivial = pair whose base stream has motion."
	if r.Thorough() {
		L = 4
	}
	r.Bounds["base_stream_length"] = L
	type job struct {
		cfg DCfg
		p   [2]int
	}
	var jobs []job
	mk := func(x, y, e int, dyn bool, one, warm bool, tmin, tmax uint16) DCfg {
		return DCfg{ResX: x, ResY: y, Edge: e, T: c07T, Delta: c07Delta, Count: 1, Gap: 1, OneDiff: one, Warmer: warm, Dynamic: dyn, TMin: tmin, TMax: tmax, Preview: 1}
	}
	var cfgs []DCfg
	for _, rs := range []c07Res{{5, 4, 1}, {4, 5, 1}, {6, 5, 2}} {
		for _, one := range []bool{true, false} {
			for _, warm := range []bool{false, true} {
				cfgs = append(cfgs, mk(rs.x, rs.y, rs.edge, false, one, warm, 0, 0))
			}
		}
		cfgs = append(cfgs, mk(rs.x, rs.y, rs.edge, true, true, true, 0, 0), mk(rs.x, rs.y, rs.edge, true, true, false, 900, 1015))
	}
	for _, c := range cfgs {
		for _, p := range interiorPixels(c) {
			jobs = append(jobs, job{c, p})
		}
	}
	alpha := []uint16{c07T - 1, c07T, c07T + c07Delta, c07T + c07Delta + 1, c07T + 2*c07Delta + 2, 1}
	pert := []uint16{0, 65535}
	cold := []uint16{0, c07T - 1, c07T}
	if r.Thorough() {
		pert = []uint16{0, 1, c07T, 65535}
		cold = []uint16{0, 1, c07T - 1, c07T}
	}
	r.Bounds["border_values"] = fmt.Sprint(pert)
	r.Bounds["cold_values"] = fmt.Sprint(cold)
	r.Parallel(len(jobs), func(w *ev.Worker, i int) {
		j := jobs[i]
		c := j.cfg
		idx := make([]int, L)
		base := make([]DFrame, L)
		for k := range base {
			base[k].Pix = grid(c, c07T-2) // cold scene, so that "cold" perturbations have room
			base[k].Pix[c.Edge][c.Edge] = c07T + 3
		}
		try := func(kind string, b []DFrame, baseMotion bool) {
			cc := c08Case{Cfg: c, A: base, B: b, Kind: kind}
			sig, msg := runC08(cc)
			w.Evaluations++
			w.Transitions += int64(2 * L)
			w.States++
			if baseMotion {
				w.Nontrivial++
			}
			if sig != "" {
				w.Violate(sig, msg, c08Case{Cfg: c, A: cloneStream(base), B: cloneStream(b), Kind: kind}, L)
			} else if baseMotion && w.WantSample() {
				w.Sample(map[string]interface{}{"cfg": c, "kind": kind, "a": fmtStream(base), "b": fmtStream(b)})
			}
		}
		for {
			for k := 0; k < L; k++ {
				base[k].Pix[j.p[0]][j.p[1]] = alpha[idx[k]]
			}
			det := detectStream(c, base)
			bm := false
			for _, v := range det {
				bm = bm || v
			}
			w.Outcome(ev.Hash(c, det))
			// (i) border perturbations
			for y := 0; y < c.ResY; y++ {
				for x := 0; x < c.ResX; x++ {
					if c.interior(y, x) {
						continue
					}
					for _, v := range pert {
						for fr := 0; fr <= L; fr++ { // fr == L: all frames
							b := cloneStream(base)
							for k := range b {
								if fr == L || fr == k {
									b[k].Pix[y][x] = v
								}
							}
							try("border", b, bm)
						}
					}
				}
			}
			for _, v := range pert {
				b := cloneStream(base)
				for k := range b {
					for y := 0; y < c.ResY; y++ {
						for x := 0; x < c.ResX; x++ {
							if !c.interior(y, x) {
								b[k].Pix[y][x] = v + uint16(k)
							}
						}
					}
				}
				try("border", b, bm)
			}
			// (ii) sub-threshold perturbations (fixed threshold only)
			if !c.Dynamic {
				for _, p := range interiorPixels(c) {
					for fr := 0; fr < L; fr++ {
						if base[fr].Pix[p[0]][p[1]] > c.T {
							continue
						}
						for _, v := range cold {
							if v == base[fr].Pix[p[0]][p[1]] {
								continue
							}
							b := cloneStream(base)
							b[fr].Pix[p[0]][p[1]] = v
							try("cold", b, bm)
						}
					}
				}
			}
			k := 0
			for k < L {
				idx[k]++
				if idx[k] < len(alpha) {
					break
				}
				idx[k] = 0
				k++
			}
			if k == L {
				break
			}
		}
	})
	c08Phased(r, cfgs)
}

// c08Phased: stage 2 - the same relational oracle on streams with FFC periods and camera resets at
// every position (the code paths that re-seed or replace the background), border perturbations only.
func c08Phased(r *ev.Run, cfgs []DCfg) {
	const L = 4
	vals := []uint16{c07T - 1, c07T + 2*c07Delta + 2}
	pert := []uint16{0, 65535}
	if r.Thorough() {
		vals = []uint16{c07T - 1, c07T + c07Delta + 1, c07T + 2*c07Delta + 2}
	}
	r.Bounds["phased_stream_length"] = L
	r.Bounds["phased_flag_patterns"] = 81
	type job struct {
		cfg   DCfg
		flags [L]int // 0 normal, 1 inside an FFC period, 2 camera reset before the frame
	}
	var jobs []job
	for _, c := range cfgs {
		if !c.Dynamic && (c.OneDiff || c.Warmer) {
			continue // one fixed-threshold configuration per resolution is enough here
		}
		for n := 0; n < 81; n++ {
			var fl [L]int
			for k, m := 0, n; k < L; k, m = k+1, m/3 {
				fl[k] = m % 3
			}
			jobs = append(jobs, job{c, fl})
		}
	}
	var pairs, motionPairs int64
	r.Parallel(len(jobs), func(w *ev.Worker, i int) {
		j := jobs[i]
		c := j.cfg
		ip := interiorPixels(c)
		vp := ip[len(ip)-1] // the varying pixel: the last interior pixel
		var border [][2]int
		for y := 0; y < c.ResY; y++ {
			for x := 0; x < c.ResX; x++ {
				if !c.interior(y, x) {
					border = append(border, [2]int{y, x})
				}
			}
		}
		sel := border
		if !r.Thorough() {
			// quick: the four corners' neighbours on each side and one corner
			sel = [][2]int{{0, c.ResX / 2}, {c.ResY / 2, 0}, {c.ResY / 2, c.ResX - 1}, {c.ResY - 1, c.ResX / 2}, {0, 0}}
		}
		idx := make([]int, L)
		base := make([]DFrame, L)
		for {
			for k := 0; k < L; k++ {
				base[k] = DFrame{Pix: grid(c, c07T-2), FFC: j.flags[k] == 1, Reset: j.flags[k] == 2}
				base[k].Pix[c.Edge][c.Edge] = c07T + 3
				base[k].Pix[vp[0]][vp[1]] = vals[idx[k]]
			}
			det := detectStream(c, base)
			bm := false
			for _, v := range det {
				bm = bm || v
			}
			w.Outcome(ev.Hash("phased", c, j.flags, det))
			try := func(b []DFrame) {
				cc := c08Case{Cfg: c, A: base, B: b, Kind: "border"}
				sig, msg := runC08(cc)
				w.Evaluations++
				w.Transitions += int64(2 * L)
				w.States++
				if bm {
					w.Nontrivial++
				}
				if sig != "" {
					w.Violate(sig, msg, c08Case{Cfg: c, A: cloneStream(base), B: cloneStream(b), Kind: "border"}, L)
				}
			}
			for _, v := range pert {
				for fr := 0; fr <= L; fr++ { // fr == L: all frames
					for _, bp := range sel {
						b := cloneStream(base)
						for k := range b {
							if fr == L || fr == k {
								b[k].Pix[bp[0]][bp[1]] = v
							}
						}
						try(b)
					}
					b := cloneStream(base)
					for k := range b {
						if fr == L || fr == k {
							for _, bp := range border {
								b[k].Pix[bp[0]][bp[1]] = v
							}
						}
					}
					try(b)
				}
			}
			k := 0
			for k < L {
				idx[k]++
				if idx[k] < len(vals) {
					break
				}
				idx[k] = 0
				k++
			}
			if k == L {
				break
			}
		}
	})
	_, _ = pairs, motionPairs
}

func init() { register(&Check{Property: "C08", Run: c08Run, Replay: c08Replay}) }
