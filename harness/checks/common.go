// Package checks holds the drivers and oracles of the model-checking harnesses that
// can reach the repository through importable packages (motion, throttle, loglimiter,
// headers, recorder). Harnesses for code in package main live in ../overlay.
package checks

import (
	"encoding/json"
	"fmt"
	"io"
	"log"
	"os"

	"verifkit/ev"
)

// Cam is a tiny cptvframe.CameraSpec.
type Cam struct{ X, Y, Hz int }

func (c Cam) ResX() int { return c.X }
func (c Cam) ResY() int { return c.Y }
func (c Cam) FPS() int  { return c.Hz }

// Quiet silences the repository's log output (it is not an observation of any oracle
// except C20, which captures it itself).
func Quiet() { log.SetOutput(io.Discard); log.SetFlags(0) }

// Registry of checks: name -> entry points.
type Check struct {
	Property string
	Run      func(r *ev.Run)                      // enumerate everything for r.Tier
	Replay   func(caseJSON []byte) []ev.Violation // run exactly one case
}

var Registry = map[string]*Check{}

func register(c *Check) { Registry[c.Property] = c }

// Main is the entry point used by cmd/vcheck.
func Main(args []string) int {
	if len(args) < 1 {
		fmt.Fprintln(os.Stderr, "usage: vcheck <property> [--replay file]")
		return 2
	}
	c := Registry[args[0]]
	if c == nil {
		fmt.Fprintf(os.Stderr, "unknown check %q\n", args[0])
		return 2
	}
	Quiet()
	if len(args) >= 3 && args[1] == "--replay" {
		_, cj, err := ev.LoadReplay(args[2])
		if err != nil {
			fmt.Fprintln(os.Stderr, err)
			return 2
		}
		return ev.ReportReplay(c.Property, args[2], cj, c.Replay(cj))
	}
	r := ev.NewRun(c.Property, "vcheck "+c.Property)
	r.Rerun = c.Replay
	c.Run(r)
	return r.Finish()
}

// enumStrings calls f for every string over alphabet of exactly length n that starts with prefix.
func enumStrings(alphabet string, n int, prefix []byte, f func(s []byte)) {
	buf := make([]byte, n)
	copy(buf, prefix)
	var rec func(i int)
	rec = func(i int) {
		if i == n {
			f(buf)
			return
		}
		for k := 0; k < len(alphabet); k++ {
			buf[i] = alphabet[k]
			rec(i + 1)
		}
	}
	if len(prefix) > n {
		return
	}
	rec(len(prefix))
}

// allStrings returns every string over alphabet of exactly length n.
func allStrings(alphabet string, n int) []string {
	var out []string
	enumStrings(alphabet, n, nil, func(s []byte) { out = append(out, string(s)) })
	return out
}

func mustJSON(v interface{}) []byte {
	b, err := json.Marshal(v)
	if err != nil {
		panic(err)
	}
	return b
}

func imin(a, b int) int {
	if a < b {
		return a
	}
	return b
}
func imax(a, b int) int {
	if a > b {
		return a
	}
	return b
}

// treeNodes counts the distinct prefix nodes of an enumeration tree visited in
// lexicographic order: each new leaf adds (len - common prefix with the previous leaf).
type treeNodes struct{ prev []byte }

func (t *treeNodes) add(s []byte) int64 {
	k := 0
	for k < len(s) && k < len(t.prev) && s[k] == t.prev[k] {
		k++
	}
	t.prev = append(t.prev[:0], s...)
	return int64(len(s) - k)
}
