package checks

import (
	"fmt"
)

// Oracles over the observation log of one processor execution. Each returns
// (signature, message) of the first breach, or ("","").

// oracleC01: recordings are gap-free, duplicate-free, in-order runs that tile.
func oracleC01(d *PDrv) (string, string) {
	recs := d.recordings('m')
	last := 0 // last id written to any earlier recording
	capN := d.cfg.Cap()
	for ri, r := range recs {
		for i, id := range r.IDs {
			if id <= 0 {
				return "C01:bad-frame-recorded", fmt.Sprintf("recording %d contains rejected frame %d", ri+1, id)
			}
			if i > 0 && id != r.IDs[i-1]+1 {
				if id <= r.IDs[i-1] {
					return "C01:repeat-or-disorder", fmt.Sprintf("recording %d: frame %d written after frame %d (ids %v)", ri+1, id, r.IDs[i-1], r.IDs)
				}
				return "C01:gap", fmt.Sprintf("recording %d skips from frame %d to %d (ids %v)", ri+1, r.IDs[i-1], id, r.IDs)
			}
			if i == 0 && id <= last {
				return "C01:frame-in-two-recordings", fmt.Sprintf("recording %d starts at frame %d but frame %d was already written to the previous recording", ri+1, id, last)
			}
		}
		if len(r.IDs) > 0 {
			if last > 0 && last+1 >= r.Trigger-(capN-1) && r.IDs[0] != last+1 {
				return "C01:tiling", fmt.Sprintf("recording %d triggered at frame %d (pre-trigger reach %d) starts at frame %d; previous recording ended at %d so it must start at %d", ri+1, r.Trigger, capN-1, r.IDs[0], last, last+1)
			}
			last = r.IDs[len(r.IDs)-1]
		}
	}
	return "", ""
}

// oracleC02: a recording triggered at t starts with the cap-1 frames before t (or as
// many as were accepted since start-up / since the previous recording ended), then t.
func oracleC02(d *PDrv) (string, string) {
	recs := d.recordings('m')
	last := 0
	capN := d.cfg.Cap()
	for ri, r := range recs {
		want := imax(imax(r.Trigger-(capN-1), last+1), 1)
		// the writes made while the trigger frame was being processed
		var atStart []int
		for i, id := range r.IDs {
			if r.IDEv[i] == r.StartEv {
				atStart = append(atStart, id)
			}
		}
		if len(atStart) == 0 {
			return "C02:nothing-written-at-trigger", fmt.Sprintf("recording %d (trigger %d): no frame written when it started", ri+1, r.Trigger)
		}
		if atStart[0] != want {
			return "C02:first-frame", fmt.Sprintf("recording %d triggered at frame %d with pre-trigger reach %d (previous recording ended at %d) starts at frame %d, expected %d", ri+1, r.Trigger, capN-1, last, atStart[0], want)
		}
		for i, id := range atStart {
			if id != want+i {
				return "C02:pretrigger-order", fmt.Sprintf("recording %d: pre-trigger frames %v are not consecutive from %d", ri+1, atStart, want)
			}
		}
		if atStart[len(atStart)-1] != r.Trigger {
			return "C02:trigger-frame", fmt.Sprintf("recording %d: frames written at the trigger are %v; the trigger frame %d must follow the pre-trigger frames exactly once", ri+1, atStart, r.Trigger)
		}
		if len(r.IDs) > 0 {
			last = r.IDs[len(r.IDs)-1]
		}
	}
	return "", ""
}

// oracleC03: counted from the trigger frame, a recording ends with the frame completing
// min-secs*fps frames from the latest motion frame, capped at max-secs*fps.
func oracleC03(d *PDrv) (string, string) {
	recs := d.recordings('m')
	motion := d.motionOf()
	if sig, msg := motionTruth(d, motion); sig != "" {
		return "C03:" + sig, msg
	}
	minF, maxF := d.cfg.MinF(), d.cfg.MaxF()
	for ri, r := range recs {
		p, q := 0, 0
		for ev := r.StartEv; ev < len(d.evKind); ev++ {
			k := d.evKind[ev]
			if k == 'B' || k == 'R' {
				break // ended from outside: C13 / C14 territory
			}
			if k != '1' && k != '0' {
				continue
			}
			p++
			if motion[ev] {
				q = p
			}
			if p == 1 && q != 1 {
				return "C03:trigger-without-motion", fmt.Sprintf("recording %d started on a frame without detected motion", ri+1)
			}
			written := false
			for i, id := range r.IDs {
				if r.IDEv[i] == ev && id == d.evID[ev] {
					written = true
				}
			}
			if !written {
				return "C03:frame-not-written", fmt.Sprintf("recording %d: frame %d (offset %d from trigger) was not written although the recording was due to include it", ri+1, d.evID[ev], p)
			}
			limit := imin(q+minF-1, maxF)
			due := p >= limit
			if due {
				if r.StopEv != ev {
					return "C03:too-long", fmt.Sprintf("recording %d (min %d, max %d frames): last motion at offset %d, so it must end with offset %d, but it was still open after offset %d", ri+1, minF, maxF, q, imax(limit, 1), p)
				}
				break
			}
			if r.StopEv == ev {
				return "C03:too-short", fmt.Sprintf("recording %d (min %d, max %d frames): ended at offset %d but last motion at offset %d requires it to run to offset %d", ri+1, minF, maxF, p, q, limit)
			}
		}
	}
	return "", ""
}

// oracleC04: a recording starts iff no recording is active, the frame completes a run
// of >= trigger-frames motion frames, the window is open, disk check ok, file creatable.
// motionTruth ties the processor's MotionDetected reports (which the oracles below use as "motion was
// detected on this frame") to the frames the harness generated: the beacon pixel toggles on every '1' frame
// and on no other, the detector compares with the previous accepted frame (gap 1, one diff, count 1), and the
// first frame since start-up or a camera reset has nothing to be compared with.
func motionTruth(d *PDrv, motion []bool) (string, string) {
	have := false
	for ev, k := range d.evKind {
		switch k {
		case 'R':
			have = false
		case '1', '0':
			if want := k == '1' && have; motion[ev] != want {
				return "motion-report-differs-from-frame-content", fmt.Sprintf("event %d (frame %d): the processor reported motion=%v, but the frame %s", ev+1, d.evID[ev], motion[ev],
					map[bool]string{true: "differs from the previous accepted frame in the beacon pixel", false: "is identical to the previous accepted frame (or is the first since start-up / reset)"}[want])
			}
			have = true
		}
	}
	return "", ""
}

func oracleC04(d *PDrv) (string, string) {
	motion := d.motionOf()
	if sig, msg := motionTruth(d, motion); sig != "" {
		return "C04:" + sig, msg
	}
	// per event: did a StartRecording succeed, was it attempted
	startOK := make([]bool, len(d.evKind))
	startTried := make([]bool, len(d.evKind))
	stopAt := make([]bool, len(d.evKind))
	for _, o := range d.log {
		if o.Src != 'm' {
			continue
		}
		switch o.Call {
		case 's':
			startTried[o.Ev] = true
			if o.OK {
				startOK[o.Ev] = true
			}
		case 'x':
			if o.ID == 1 {
				stopAt[o.Ev] = true
			}
		}
	}
	active := false
	run := 0
	for ev, k := range d.evKind {
		if k == '1' || k == '0' {
			if motion[ev] {
				run++
			} else {
				run = 0
			}
			want := !active && motion[ev] && run >= d.cfg.Trigger && d.evOpen[ev] && !d.evDisk[ev] && !d.evStart[ev]
			if startOK[ev] && !want {
				why := "?"
				switch {
				case active:
					why = "a recording was already active"
				case !motion[ev]:
					why = "no motion was detected on this frame"
				case run < d.cfg.Trigger:
					why = fmt.Sprintf("only %d consecutive motion frames (trigger-frames %d)", run, d.cfg.Trigger)
				case !d.evOpen[ev]:
					why = "the recording window is closed"
				case d.evDisk[ev]:
					why = "the free-disk-space check failed"
				}
				sig := "C04:started-wrongly"
				if !d.evOpen[ev] && !active && motion[ev] && run >= d.cfg.Trigger {
					sig = "C04:started-outside-window"
				}
				return sig, fmt.Sprintf("event %d (frame %d): recording started although %s", ev+1, d.evID[ev], why)
			}
			if want && !startOK[ev] {
				return "C04:start-missed", fmt.Sprintf("event %d (frame %d): run of %d motion frames (trigger-frames %d), window open, storage ok, no recording active - a recording must start here", ev+1, d.evID[ev], run, d.cfg.Trigger)
			}
			if startTried[ev] && (!d.evOpen[ev] || d.evDisk[ev]) {
				return "C04:create-attempted-while-refused", fmt.Sprintf("event %d: file creation attempted although window open=%v disk-check-failed=%v", ev+1, d.evOpen[ev], d.evDisk[ev])
			}
			if startOK[ev] {
				active = true
			}
		}
		if stopAt[ev] {
			active = false
			run = 0
		}
	}
	return "", ""
}
