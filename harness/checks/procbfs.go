package checks

import (
	"fmt"
	"reflect"
	"strings"

	"github.com/TheCacophonyProject/go-cptv/cptvframe"

	"verifkit/canon"
	"verifkit/ev"
)

// ---- explicit-state search over the real MotionProcessor (fixpoint mode of Engine A)

// procKey is the canonical key of the processor's state: a generic reflection walk over
// the live object (unexported fields included) with frame identities made relative to
// the newest accepted frame. Correctness argument for each rule:
//   - frames: (relative id, beacon pixel, background flag). All other pixels are constant
//     in these drivers. Relative ids saturate at 2*cap+6: a frame that old has left both
//     the pre-trigger ring and the detector's comparison ring of any correct implementation.
//   - MotionProcessor.triggered is only ever compared with triggerFrames using "<": cap at it.
//   - CurrentFrame, motionDetector.count: labelling / debug counters, never read by logic
//     that reaches a sink. backgroundFrames: only read when the dynamic threshold is on
//     (these drivers use a fixed threshold).
//   - FrameLoop.orderedFrames: scratch output of GetHistory, rewritten before every use.
//
// A wrong rule cannot produce a VIOLATION (violations are always replayed from the initial
// state on the real code); it could only hide states, which is what the key-free tree
// enumeration of the same check guards against.
func (d *PDrv) procKey() string {
	r := canon.NewRules()
	for _, t := range []string{"*loglimiter.LogLimiter", "*checks.monSink", "*checks.PDrv", "checks.throttledCounter", "window.Window", "*config.Location", "*recorder.RecorderConfig", "sync.Mutex", "*motion.debugTracker"} {
		r.SkipTypes[t] = true
	}
	sat := 2*d.cfg.Cap() + 6
	next := d.nextID
	r.Type["cptvframe.Frame"] = func(v reflect.Value) (string, bool) {
		f := v.Addr().Interface().(*cptvframe.Frame)
		id := f.Status.FrameCount
		var rel string
		switch {
		case id == 0:
			rel = "z"
		case id < 0 || id >= badIDBase:
			rel = "bad"
		default:
			a := next - id
			if a > sat {
				a = sat
			}
			rel = fmt.Sprint(a)
		}
		px := uint16(0)
		if len(f.Pix) > 1 && len(f.Pix[1]) > 1 {
			px = f.Pix[1][1]
		}
		return fmt.Sprintf("f(%s,%d,%v)", rel, px, f.Status.BackgroundFrame), true
	}
	// frames in the pre-trigger ring are only ever handed to sinks, and the oracles look at
	// ids only: their pixel content cannot influence anything observed, so the ring is keyed on ids.
	r.Field["motion.MotionProcessor.frameLoop"] = func(v reflect.Value) (string, bool) {
		r2 := canon.NewRules()
		r2.SkipTypes["sync.Mutex"] = true
		r2.Field["motion.FrameLoop.orderedFrames"] = canon.Drop
		r2.Type["cptvframe.Frame"] = func(v reflect.Value) (string, bool) {
			f := v.Addr().Interface().(*cptvframe.Frame)
			id := f.Status.FrameCount
			switch {
			case id == 0:
				return "z", true
			case id < 0 || id >= badIDBase:
				return "bad", true
			}
			a := next - id
			if a > sat {
				a = sat
			}
			return fmt.Sprint(a), true
		}
		return canon.Key(v.Interface(), r2), true
	}
	trig := int64(d.cfg.Trigger)
	r.Field["motion.MotionProcessor.triggered"] = canon.CapInt(func() int64 { return trig })
	r.Field["motion.MotionProcessor.CurrentFrame"] = canon.Drop
	r.Field["motion.motionDetector.count"] = canon.Drop
	r.Field["motion.motionDetector.backgroundFrames"] = canon.Drop
	r.Field["motion.FrameLoop.orderedFrames"] = canon.Drop
	k := canon.Key(d.mp, r)
	return fmt.Sprintf("%s|lvl=%v|open=%v%v%v", k, d.level, d.m.open, d.c.open, d.t.open)
}

// recSummary is the part of the past that the recording oracles (C01-C04) still depend on.
func (d *PDrv) recSummary() string {
	lastW := 0
	for _, o := range d.log {
		if o.Src == 'm' && o.Call == 'w' && o.ID > lastW {
			lastW = o.ID
		}
	}
	age := d.nextID - lastW
	if lastW == 0 {
		age = -1
	} else if age > d.cfg.Cap()+2 {
		age = d.cfg.Cap() + 2
	}
	// open recording: frames since trigger (p) and since the last motion (p-q)
	p, sinceMotion := 0, 0
	recs := d.recordings('m')
	if n := len(recs); n > 0 && recs[n-1].StopEv < 0 {
		motion := d.motionOf()
		for ev := recs[n-1].StartEv; ev < len(d.evKind); ev++ {
			if k := d.evKind[ev]; k == '1' || k == '0' {
				p++
				sinceMotion++
				if motion[ev] {
					sinceMotion = 0
				}
			}
		}
	}
	// run of motion frames for C04
	run := 0
	motion := d.motionOf()
	for ev := len(d.evKind) - 1; ev >= 0; ev-- {
		k := d.evKind[ev]
		if k == '1' || k == '0' {
			if !motion[ev] {
				break
			}
			run++
		}
		stopped := false
		for _, o := range d.log {
			if o.Ev == ev && o.Src == 'm' && o.Call == 'x' && o.ID == 1 {
				stopped = true
			}
		}
		if stopped && !(k == '1' || k == '0') {
			break
		}
	}
	if run > d.cfg.Trigger+1 {
		run = d.cfg.Trigger + 1
	}
	return fmt.Sprintf("last=%d|p=%d|sm=%d|run=%d", age, p, sinceMotion, run)
}

type bfsStats struct {
	States, Transitions, MaxDepth int
	Converged                     bool
}

// procBFS explores all histories over base ∪ dev (at most maxDev tokens from dev per
// history) to a fixpoint of canonical states. Every transition is executed on a fresh
// real processor by replaying the shortest history reaching the source state. The search
// is level-synchronous: the successors of one BFS level are computed in parallel and
// merged sequentially, so the result does not depend on scheduling.
func procBFS(r *ev.Run, cfg PCfg, base, dev []string, maxDev int, enabled func(d *PDrv, tok string) bool,
	oracle func(d *PDrv) (string, string), summary func(d *PDrv) string, maxStates int) bfsStats {
	type node struct {
		hist []string
		dev  int
	}
	type succ struct {
		key string
		n   node
		tr  string
	}
	st := bfsStats{Converged: true}
	seen := map[string]bool{}
	d0 := NewPDrv(PCase{Cfg: cfg})
	seen[d0.procKey()+"|"+summary(d0)+"|0"] = true
	level := []node{{}}
	isDev := map[string]bool{}
	for _, t := range dev {
		isDev[t] = true
	}
	all := append(append([]string{}, base...), dev...)
	for len(level) > 0 {
		results := make([][]succ, len(level))
		trans := make([]int, len(level))
		r.Parallel(len(level), func(w *ev.Worker, i int) {
			n := level[i]
			for _, tok := range all {
				nd := n.dev
				if isDev[tok] {
					if n.dev >= maxDev {
						continue
					}
					nd++
				}
				hist := append(append(make([]string, 0, len(n.hist)+1), n.hist...), tok)
				d := NewPDrv(PCase{Cfg: cfg, Events: hist})
				d.Run(n.hist)
				if enabled != nil && !enabled(d, tok) {
					continue
				}
				d.Apply(tok)
				d.tokens = hist
				trans[i]++
				w.Evaluations++
				w.Transitions++
				if d.panicMsg != "" {
					w.Violate("panic", fmt.Sprintf("%+v events %s: %s", cfg, strings.Join(hist, " "), d.panicMsg), PCase{Cfg: cfg, Events: hist}, len(hist))
					continue
				}
				if sig, msg := oracle(d); sig != "" {
					w.Violate(sig, fmt.Sprintf("%+v events %s: %s", cfg, strings.Join(hist, " "), msg), PCase{Cfg: cfg, Events: hist}, len(hist))
					continue
				}
				k := d.procKey() + "|" + summary(d) + "|" + fmt.Sprint(nd)
				s := succ{key: k, n: node{hist, nd}}
				if w.WantSample() && len(hist) >= 6 {
					s.tr = d.sinkTrace('m')
				}
				results[i] = append(results[i], s)
			}
		})
		var next []node
		w := r.Serial()
		for i := range results {
			st.Transitions += trans[i]
			for _, s := range results[i] {
				if seen[s.key] {
					continue
				}
				seen[s.key] = true
				st.States++
				w.States++
				w.Nontrivial++
				w.Outcome(ev.HashBytes([]byte(s.key)))
				if len(s.n.hist) > st.MaxDepth {
					st.MaxDepth = len(s.n.hist)
				}
				if s.tr != "" && w.WantSample() {
					w.Sample(map[string]interface{}{"mode": "fixpoint", "cfg": cfg, "shortest_history_to_a_new_state": strings.Join(s.n.hist, " "), "motion_sink_trace": s.tr})
				}
				next = append(next, s.n)
			}
		}
		if len(seen) > maxStates || r.Expired() {
			st.Converged = false
			return st
		}
		level = next
	}
	return st
}

// runProcFixpoint runs procBFS for every configuration in parallel and records the statistics.
func runProcFixpoint(r *ev.Run, name string, cfgs []PCfg, base, dev []string, maxDev int, enabled func(d *PDrv, tok string) bool,
	oracle func(d *PDrv) (string, string), summary func(d *PDrv) string, maxStates int) {
	res := make([]bfsStats, len(cfgs))
	for i := range cfgs {
		res[i] = procBFS(r, cfgs[i], base, dev, maxDev, enabled, oracle, summary, maxStates)
	}
	tot := bfsStats{Converged: true}
	notConv := 0
	for _, s := range res {
		tot.States += s.States
		tot.Transitions += s.Transitions
		if s.MaxDepth > tot.MaxDepth {
			tot.MaxDepth = s.MaxDepth
		}
		if !s.Converged {
			notConv++
		}
	}
	r.Extra["fixpoint_"+name] = map[string]interface{}{"configurations": len(cfgs), "states": tot.States, "transitions": tot.Transitions,
		"longest_shortest_path": tot.MaxDepth, "configurations_not_converged": notConv, "state_cap": maxStates, "alphabet": strings.Join(append(append([]string{}, base...), dev...), " "), "max_deviations": maxDev}
	if notConv > 0 {
		r.MarkCapped()
	}
}
