package checks

import (
	"encoding/json"
	"fmt"
	"reflect"
	"sort"

	"github.com/TheCacophonyProject/go-cptv/cptvframe"
	"github.com/TheCacophonyProject/thermal-recorder/motion"

	"verifkit/canon"
	"verifkit/ev"
)

// C19 — frame ring buffer returns exactly the retained history, oldest first.
//
// Alphabet: W (fill the current slot with the next tag, observe, Move, observe),
// S (SetAsOldest, observe), R (Reset, observe). Oracle: a plain list.

type c19Case struct {
	Cap  int    `json:"cap"`
	Ops  string `json:"ops"`
	Lazy bool   `json:"observe_only_on_O,omitempty"`
}

type ringModel struct {
	cap    int
	moved  []int
	curTag int // tag in the current slot if filled since the last move/reset, else -1
	mark   int // position (index into the since-reset sequence) of the mark, -1 if expired
}

type c19Sys struct {
	lazy    bool // observers are called only by the explicit op 'O' (an implementation may cache between calls)
	fl      *motion.FrameLoop
	m       ringModel
	nextTag int
	obs     []int
}

func newC19(capacity int) *c19Sys {
	return &c19Sys{fl: motion.NewFrameLoop(capacity, Cam{2, 2, 1}), m: ringModel{cap: capacity, curTag: -1, mark: 0}, nextTag: 1}
}

func tagOf(f *cptvframe.Frame) int { return f.Status.FrameCount }

// observe checks every observer of the ring against the list model; returns "" if fine.
func (s *c19Sys) observe() string {
	m := &s.m
	n := len(m.moved)
	cur := s.fl.Current()
	if cur == nil {
		return "Current() returned nil"
	}
	if m.curTag >= 0 && tagOf(cur) != m.curTag {
		return fmt.Sprintf("Current() holds tag %d, expected the frame just filled (%d)", tagOf(cur), m.curTag)
	}
	lo := imax(0, n-(m.cap-1))
	if m.mark >= 0 {
		lo = imax(lo, m.mark)
	}
	hist := s.fl.GetHistory()
	s.obs = append(s.obs, len(hist))
	if len(hist) > m.cap {
		return fmt.Sprintf("history holds %d frames, capacity %d", len(hist), m.cap)
	}
	if len(hist) != n-lo+1 {
		return fmt.Sprintf("history has %d frames, expected %d (retained %v + current)", len(hist), n-lo+1, m.moved[lo:])
	}
	for i := 0; i < len(hist)-1; i++ {
		s.obs = append(s.obs, tagOf(hist[i]))
		if tagOf(hist[i]) != m.moved[lo+i] {
			return fmt.Sprintf("history[%d] is tag %d, expected %d (retained %v)", i, tagOf(hist[i]), m.moved[lo+i], m.moved[lo:])
		}
		if int(hist[i].Pix[0][0]) != m.moved[lo+i] {
			return fmt.Sprintf("history[%d] pixel data is %d, expected tag %d", i, hist[i].Pix[0][0], m.moved[lo+i])
		}
	}
	if hist[len(hist)-1] != cur {
		return "history does not end with the current frame"
	}
	old := s.fl.Oldest()
	if old == nil {
		return "Oldest() returned nil"
	}
	switch {
	case m.mark >= 0 && m.mark == n:
		if old != cur {
			return fmt.Sprintf("Oldest() is tag %d, expected the marked (current) frame", tagOf(old))
		}
	case m.mark >= 0:
		s.obs = append(s.obs, tagOf(old))
		if tagOf(old) != m.moved[m.mark] {
			return fmt.Sprintf("Oldest() is tag %d, expected marked frame %d", tagOf(old), m.moved[m.mark])
		}
	case m.cap == 1:
		if old != cur {
			return "Oldest() at capacity 1 is not the only slot"
		}
	default:
		want := m.moved[n-(m.cap-1)]
		s.obs = append(s.obs, tagOf(old))
		if tagOf(old) != want {
			return fmt.Sprintf("Oldest() is tag %d, expected the frame about to be overwritten (%d)", tagOf(old), want)
		}
	}
	rec := s.fl.CopyRecent()
	if rec == nil {
		return "CopyRecent() returned nil"
	}
	if m.cap >= 2 && n >= 1 {
		s.obs = append(s.obs, tagOf(rec))
		if tagOf(rec) != m.moved[n-1] || int(rec.Pix[0][0]) != m.moved[n-1] {
			return fmt.Sprintf("CopyRecent() is tag %d, expected the frame before the current one (%d)", tagOf(rec), m.moved[n-1])
		}
	}
	// it must be an independent copy: scribbling on it must not reach the ring
	before := make([]int, len(hist))
	for i, f := range hist {
		before[i] = int(f.Pix[0][0])
	}
	rec.Pix[0][0] = 0xBEEF
	rec.Status.FrameCount = -7
	for i, f := range hist {
		if int(f.Pix[0][0]) != before[i] || f == rec || f.Status.FrameCount == -7 {
			return "CopyRecent() aliases a ring slot"
		}
	}
	return ""
}

func (s *c19Sys) obsUnlessLazy() string {
	if s.lazy {
		return ""
	}
	return s.observe()
}

func (s *c19Sys) apply(op byte) string {
	m := &s.m
	switch op {
	case 'O':
		if e := s.observe(); e != "" {
			return "observe: " + e
		}
	case 'W':
		f := s.fl.Current()
		f.Status.FrameCount = s.nextTag
		f.Pix[0][0] = uint16(s.nextTag)
		m.curTag = s.nextTag
		s.nextTag++
		if e := s.obsUnlessLazy(); e != "" {
			return "after fill: " + e
		}
		ret := s.fl.Move()
		m.moved = append(m.moved, m.curTag)
		m.curTag = -1
		if m.mark >= 0 && len(m.moved) == m.mark+m.cap {
			m.mark = -1
		}
		if ret != s.fl.Current() {
			return "Move() did not return the new current frame"
		}
		if e := s.obsUnlessLazy(); e != "" {
			return "after move: " + e
		}
	case 'S':
		ret := s.fl.SetAsOldest()
		m.mark = len(m.moved)
		if ret != s.fl.Current() {
			return "SetAsOldest() did not return the current frame"
		}
		if e := s.obsUnlessLazy(); e != "" {
			return "after set-as-oldest: " + e
		}
	case 'R':
		s.fl.Reset()
		m.moved = nil
		m.mark = 0
		m.curTag = -1
		if e := s.obsUnlessLazy(); e != "" {
			return "after reset: " + e
		}
	}
	return ""
}

func (s *c19Sys) key() string {
	r := canon.NewRules()
	r.SkipTypes["sync.Mutex"] = true
	next := s.nextTag
	r.Type["cptvframe.Frame"] = func(v reflect.Value) (string, bool) {
		f := v.Addr().Interface().(*cptvframe.Frame)
		if f.Status.FrameCount == 0 {
			return "z", true
		}
		// ages saturate: a slot older than 2*cap+2 tags is not retained by any correct
		// ring of this capacity, so its exact age cannot influence an observer (the tree
		// mode, which uses no key, covers implementations that would expose it)
		return fmt.Sprintf("f%d", imin(next-f.Status.FrameCount, 2*s.m.cap+2)), true
	}
	// orderedFrames is scratch output of GetHistory, rewritten by every call
	r.Field["motion.FrameLoop.orderedFrames"] = canon.Drop
	k := canon.Key(s.fl, r)
	md := -1
	if s.m.mark >= 0 {
		md = len(s.m.moved) - s.m.mark
	}
	return fmt.Sprintf("%s|n=%d|mark=%d", k, imin(len(s.m.moved), s.m.cap), md)
}

func runC19Case(c c19Case) (msg string, step int, obs []int, key string) {
	defer func() {
		if p := recover(); p != nil {
			msg = fmt.Sprintf("panic: %v", p)
		}
	}()
	s := newC19(c.Cap)
	s.lazy = c.Lazy
	if e := s.obsUnlessLazy(); e != "" {
		return "fresh loop: " + e, 0, s.obs, ""
	}
	for i := 0; i < len(c.Ops); i++ {
		step = i + 1 // kept current for the panic path
		if e := s.apply(c.Ops[i]); e != "" {
			return fmt.Sprintf("op %d (%c): %s", i+1, c.Ops[i], e), i + 1, s.obs, ""
		}
	}
	return "", len(c.Ops), s.obs, s.key()
}

func c19Replay(cj []byte) []ev.Violation {
	var c c19Case
	if err := json.Unmarshal(cj, &c); err != nil {
		panic(err)
	}
	msg, _, _, _ := runC19Case(c)
	if msg == "" {
		return nil
	}
	return []ev.Violation{{Sig: "ring-history", Msg: msg, Case: c}}
}

func c19Run(r *ev.Run) {
	maxCap, depthFor := 6, func(cap int) int { return imin(2*cap+4, 11) }
	if r.Thorough() {
		maxCap, depthFor = 8, func(cap int) int { return imin(2*cap+4, 15) }
	}
	r.Rule = "tree: every string over {W=fill+move, S=set-as-oldest, R=reset} to the stated depth per capacity, observers (GetHistory, Oldest, Current, CopyRecent) checked against a list model after every step, and a second pass over {W,S,R,O} (depth <=10) in which the observers are called only at O (so caching between calls is visible); fixpoint: explicit-state BFS over the same alphabet on canonical keys (reflection walk of the real FrameLoop, tags relative to newest). Non-trivial = distinct canonical ring state reached."
	r.Assumptions = []string{"the list model in c19.go is the meaning of the statement", "fixpoint key only: ring slots older than 2*cap+2 tags cannot be observed (not assumed by the tree mode)"}
	// ---- fixpoint BFS per capacity
	type bfsRes struct {
		states map[string]bool
		trans  int
		conv   bool
	}
	closed := make([]bfsRes, 2*maxCap+2)
	r.Parallel(2*maxCap, func(w *ev.Worker, i int) {
		capacity := i/2 + 1
		lazy := i%2 == 1
		alphabet := "WSR"
		if lazy {
			alphabet = "WSRO"
		}
		seen := map[string]bool{}
		_, _, _, k0 := runC19Case(c19Case{capacity, "", lazy})
		seen[k0] = true
		frontier := []string{""}
		trans := 0
		conv := true
		for len(frontier) > 0 {
			hist := frontier[0]
			frontier = frontier[1:]
			for _, op := range alphabet {
				c := c19Case{capacity, hist + string(op), lazy}
				msg, _, obs, k := runC19Case(c)
				trans++
				w.Evaluations++
				w.Transitions++
				w.Outcome(ev.Hash(obs))
				if msg != "" {
					w.Violate("ring-history", fmt.Sprintf("capacity %d, ops %s (observe only on O: %v): %s", capacity, c.Ops, lazy, msg), c, len(c.Ops))
					continue
				}
				if !seen[k] {
					seen[k] = true
					w.States++
					w.NontrivialKey(ev.Hash(capacity, k))
					frontier = append(frontier, c.Ops)
					if w.WantSample() && len(c.Ops) >= 4 {
						w.Sample(map[string]interface{}{"mode": "fixpoint", "capacity": capacity, "ops": c.Ops, "observed": fmt.Sprint(obs)})
					}
				}
			}
			if len(seen) > 200000 {
				conv = false
				break
			}
		}
		closed[2*capacity+b2i(lazy)] = bfsRes{seen, trans, conv}
	})
	fix := map[string]interface{}{}
	for c := 1; c <= maxCap; c++ {
		for _, lz := range []bool{false, true} {
			b := closed[2*c+b2i(lz)]
			fix[fmt.Sprintf("%d/observe-on-O=%v", c, lz)] = map[string]interface{}{"states": len(b.states), "transitions": b.trans, "converged": b.conv}
			if !b.conv {
				r.MarkCapped()
			}
		}
	}
	r.Extra["fixpoint_per_capacity"] = fix
	// ---- tree mode, sharded by capacity x first three ops
	type job struct {
		cap    int
		prefix string
		lazy   bool
	}
	var jobs []job
	depths := map[string]int{}
	for c := 1; c <= maxCap; c++ {
		depths[fmt.Sprint(c)] = depthFor(c)
		for _, p := range allStrings("WSR", 3) {
			jobs = append(jobs, job{c, p, false})
		}
		// second pass: observers are called only where the string says so (an implementation that
		// caches results between calls is invisible to a harness that observes after every step)
		for _, p := range allStrings("WSRO", 3) {
			jobs = append(jobs, job{c, p, true})
		}
	}
	r.Bounds["tree_depth_per_capacity"] = depths
	r.Bounds["capacities"] = fmt.Sprintf("1..%d", maxCap)
	keyMiss := 0
	r.Parallel(len(jobs), func(w *ev.Worker, i int) {
		j := jobs[i]
		var tn treeNodes
		alphabet, depth := "WSR", depthFor(j.cap)
		if j.lazy {
			alphabet, depth = "WSRO", imin(depthFor(j.cap), 10)
		}
		enumStrings(alphabet, depth, []byte(j.prefix), func(s []byte) {
			c := c19Case{j.cap, string(s), j.lazy}
			msg, step, obs, k := runC19Case(c)
			w.Evaluations++
			w.Transitions += int64(step)
			w.States += tn.add(s)
			w.Outcome(ev.Hash(obs))
			if msg != "" {
				c.Ops = c.Ops[:step]
				w.Violate("ring-history", fmt.Sprintf("capacity %d, ops %s: %s", j.cap, c.Ops, msg), c, step)
				return
			}
			if b := closed[2*j.cap+b2i(j.lazy)]; b.conv && !b.states[k] {
				w.Extra["tree_keys_outside_fixpoint"]++
				keyMiss++
			}
			if w.WantSample() {
				w.Sample(map[string]interface{}{"mode": "tree", "capacity": j.cap, "ops": c.Ops, "observed": fmt.Sprint(obs)})
			}
		})
	})
	if keyMiss > 0 {
		// a wrong abstraction is a harness error, never a property verdict
		panic(fmt.Sprintf("C19 harness error: %d tree states are not in the fixpoint's closed set (canonical key is not a bisimulation)", keyMiss))
	}
	_ = sort.Strings
}

func init() { register(&Check{Property: "C19", Run: c19Run, Replay: c19Replay}) }
