package checks

import (
	"errors"
	"fmt"
	"strconv"
	"strings"
	"time"

	config "github.com/TheCacophonyProject/go-config"
	"github.com/TheCacophonyProject/go-cptv/cptvframe"
	"github.com/TheCacophonyProject/lepton3"
	"github.com/TheCacophonyProject/thermal-recorder/motion"
	"github.com/TheCacophonyProject/thermal-recorder/recorder"
	"github.com/TheCacophonyProject/thermal-recorder/throttle"
	"github.com/TheCacophonyProject/window"
)

// ---- driver for the real MotionProcessor (shared by C01-C04, C12, C13, C17, C20)

// PCfg is the recorder/motion configuration of one execution.
type PCfg struct {
	FPS      int    `json:"fps"`
	Preview  int    `json:"preview_secs"`
	Trigger  int    `json:"trigger_frames"`
	Min      int    `json:"min_secs"`
	Max      int    `json:"max_secs"`
	Constant bool   `json:"constant,omitempty"`
	Window   string `json:"window,omitempty"` // "", "day" (09:00-17:00), "night" (22:00-06:00)
	Via      string `json:"via"`              // "frame" = ProcessFrame, "raw" = Process with a harness parser
	// Throttle wraps the motion sink in a real ThrottledRecorder (min length = min+preview secs) whose
	// clock is owned by the driver: it advances 1/fps per frame event, and by 10*capacity ticks on a "J" event.
	Throttle *TCfg `json:"throttle,omitempty"`
}

func (c PCfg) Cap() int  { return c.Preview*c.FPS + c.Trigger }
func (c PCfg) MinF() int { return c.Min * c.FPS }
func (c PCfg) MaxF() int { return c.Max * c.FPS }

// PFault makes the N-th call (1-based) of one kind on one sink return an error.
type PFault struct {
	Sink string `json:"sink"` // motion | const | test
	Call string `json:"call"` // check | start | write | stop
	N    int    `json:"n"`
}

// PCase is one execution: configuration, event tokens and fault plan.
// Event token = kind char followed by flags:
//
//	kind: 1 motion frame, 0 still frame, B bad frame, R camera reset, T test-recording request
//	flags: c<k> window clock choice k (default 0 = well inside the window),
//	       d free-disk-space check fails on this event, s file creation fails on this event
type PCase struct {
	Cfg    PCfg     `json:"cfg"`
	Events []string `json:"events"`
	Faults []PFault `json:"faults,omitempty"`
}

func (c PCase) String() string {
	return fmt.Sprintf("%+v %s faults=%v", c.Cfg, strings.Join(c.Events, " "), c.Faults)
}

// PObs is one observation in the global, ordered log.
type PObs struct {
	Ev   int    // index of the event being applied
	Src  byte   // 'm' motion sink, 'c' continuous sink, 't' test sink, 'L' listener
	Call byte   // sinks: 'k' check, 's' start, 'w' write, 'x' stop; listener: 'M' motion, 'S' started, 'E' ended
	ID   int    // write: frame id
	OK   bool   // call returned nil
	Thr  uint16 // start: threshold argument
	BG   *cptvframe.Frame
	Ptr  *cptvframe.Frame
	At   time.Duration // driver clock (throttle compositions only)
}

type monSink struct {
	name     byte
	d        *PDrv
	open     bool
	breach   string
	breachAt int // length of the observation log when the first breach happened
	counts   map[byte]int
}

func (s *monSink) fails(call byte) bool {
	s.counts[call]++
	if s.d.curFault[[2]byte{s.name, call}] {
		s.d.faultFired++
		return true
	}
	for _, f := range s.d.faults {
		if f.sink == s.name && f.call == call && f.n == s.counts[call] {
			return true
		}
	}
	return false
}

var errInjected = errors.New("injected storage failure")

func (s *monSink) CheckCanRecord() error {
	fail := s.fails('k') || (s.name == 'm' && s.d.curDisk)
	s.d.log = append(s.d.log, PObs{Ev: s.d.ev, Src: s.name, Call: 'k', OK: !fail})
	if fail {
		return errInjected
	}
	return nil
}

func (s *monSink) StartRecording(bg *cptvframe.Frame, thr uint16) error {
	if s.open && s.breach == "" {
		s.breach = fmt.Sprintf("start-while-open:event %d", s.d.ev+1)
		s.breachAt = len(s.d.log)
	}
	fail := s.fails('s') || (s.name == 'm' && s.d.curStart)
	s.d.log = append(s.d.log, PObs{Ev: s.d.ev, Src: s.name, Call: 's', OK: !fail, Thr: thr, BG: bg})
	if fail {
		return errInjected
	}
	s.open = true
	return nil
}

func (s *monSink) WriteFrame(f *cptvframe.Frame) error {
	if !s.open && s.breach == "" {
		s.breach = fmt.Sprintf("write-while-closed:event %d", s.d.ev+1)
		s.breachAt = len(s.d.log)
	}
	fail := s.fails('w')
	id := f.Status.FrameCount
	if id >= badIDBase {
		id = -(id - badIDBase)
	}
	s.d.log = append(s.d.log, PObs{Ev: s.d.ev, Src: s.name, Call: 'w', ID: id, OK: !fail, Ptr: f, At: s.d.elapsed})
	if fail {
		return errInjected
	}
	return nil
}

func (s *monSink) StopRecording() error {
	fail := s.fails('x')
	s.d.log = append(s.d.log, PObs{Ev: s.d.ev, Src: s.name, Call: 'x', OK: !fail, ID: b2i(s.open)})
	s.open = false // like the file recorder, the sink is closed whether or not the stop reports an error
	if fail {
		return errInjected
	}
	return nil
}

func b2i(b bool) int {
	if b {
		return 1
	}
	return 0
}

type pfault struct {
	sink, call byte
	n          int
}

// PDrv owns one real MotionProcessor and everything around it.
type PDrv struct {
	cfg        PCfg
	cam        Cam
	mp         *motion.MotionProcessor
	m, c, t    *monSink
	faults     []pfault
	now        time.Time
	nextID     int // number of accepted frames so far
	badCount   int
	level      bool
	log        []PObs
	ev         int
	curDisk    bool
	curStart   bool
	curFault   map[[2]byte]bool // per-event: the call of this kind on this sink fails if made during the event
	faultFired int
	// per event bookkeeping for the oracles
	evKind     []byte
	evID       []int  // id of the frame carried by the event (0 for R/T, negative for bad frames)
	evOpen     []bool // window expected open at this event (own arithmetic)
	evDisk     []bool
	evStart    []bool
	panicMsg   string
	tokens     []string
	procErr    []error // Process() results, one per frame/bad-frame event in raw modes
	tclk       *tclock
	elapsed    time.Duration
	nThrottled int
}

const (
	lvlLow  = 2000
	lvlHigh = 3000
	fill    = 1500
)

func pMotionConf(trigger int) *config.ThermalMotion {
	return &config.ThermalMotion{
		TempThresh: 1000, DeltaThresh: 50, CountThresh: 1, FrameCompareGap: 1,
		UseOneDiffOnly: true, TriggerFrames: trigger, WarmerOnly: false, EdgePixels: 1,
	}
}

var dayBase = time.Date(2020, 6, 15, 0, 0, 0, 0, time.UTC)

// window clock choices; index 0 is the default (well inside the window)
func clockChoices(win string) []time.Duration {
	h, s, ns := time.Hour, time.Second, time.Nanosecond
	switch win {
	case "day": // 09:00 - 17:00
		return []time.Duration{12 * h, 9*h - ns, 9 * h, 9*h + s, 17*h - ns, 17 * h, 17*h + s, 27 * h}
	case "night": // 22:00 - 06:00, spans midnight
		return []time.Duration{23*h + 30*time.Minute, 22*h - ns, 22 * h, 22*h + s, 6*h - ns, 6 * h, 6*h + s, 12 * h, 24 * h}
	}
	return []time.Duration{12 * h}
}

// windowOpen is the harness's own interval arithmetic: [start, stop), wrap-aware.
func windowOpen(win string, t time.Time) bool {
	tod := time.Duration(t.Hour())*time.Hour + time.Duration(t.Minute())*time.Minute + time.Duration(t.Second())*time.Second + time.Duration(t.Nanosecond())
	switch win {
	case "closed":
		return tod >= 1*time.Hour && tod < 2*time.Hour
	case "day":
		return tod >= 9*time.Hour && tod < 17*time.Hour
	case "night":
		return tod >= 22*time.Hour || tod < 6*time.Hour
	}
	return true
}

func NewPDrv(c PCase) *PDrv {
	d := &PDrv{cfg: c.Cfg, cam: Cam{4, 4, c.Cfg.FPS}}
	for _, f := range c.Faults {
		pf := pfault{n: f.N}
		switch f.Sink {
		case "motion":
			pf.sink = 'm'
		case "const":
			pf.sink = 'c'
		case "test":
			pf.sink = 't'
		}
		switch f.Call {
		case "check":
			pf.call = 'k'
		case "start":
			pf.call = 's'
		case "write":
			pf.call = 'w'
		case "stop":
			pf.call = 'x'
		}
		d.faults = append(d.faults, pf)
	}
	d.m = &monSink{name: 'm', d: d, counts: map[byte]int{}}
	d.c = &monSink{name: 'c', d: d, counts: map[byte]int{}}
	d.t = &monSink{name: 't', d: d, counts: map[byte]int{}}
	d.now = dayBase.Add(clockChoices(c.Cfg.Window)[0])
	var w *window.Window
	var err error
	switch c.Cfg.Window {
	case "day":
		w, err = window.New("09:00", "17:00", 0, 0)
	case "night":
		w, err = window.New("22:00", "06:00", 0, 0)
	case "closed": // a window that is closed at the driver's default clock (12:00)
		w, err = window.New("01:00", "02:00", 0, 0)
	default:
		w, err = window.New("12:00", "12:00", 0, 0)
	}
	if err != nil {
		panic(err)
	}
	w.Now = func() time.Time { return d.now }
	rc := &recorder.RecorderConfig{MinSecs: c.Cfg.Min, MaxSecs: c.Cfg.Max, PreviewSecs: c.Cfg.Preview, Window: *w, ConstantRecorder: c.Cfg.Constant}
	var cr recorder.Recorder
	if c.Cfg.Constant {
		cr = d.c
	}
	var crArg recorder.Recorder = cr
	if cr == nil {
		// main.go passes a nil *CPTVFileRecorder wrapped in the interface; a typed nil pointer is what
		// isNullOrNullPointer exists for
		var np *monSink
		crArg = np
	}
	var motionRec recorder.Recorder = d.m
	if t := c.Cfg.Throttle; t != nil {
		d.tclk = &tclock{now: time.Unix(1_600_000_000, 0)}
		tc := &config.ThermalThrottler{Activate: true, BucketSize: time.Duration(t.BucketSecs) * time.Second, MinRefill: time.Duration(t.RefillSecs) * time.Second}
		motionRec = throttle.NewThrottledRecorderWithClock(d.m, tc, c.Cfg.Min+c.Cfg.Preview, throttledCounter{d}, d.tclk, d.cam)
	}
	parser := motion.FrameParser(d.parse)
	if c.Cfg.Via == "lepton" {
		parser = lepton3.ParseRawFrame // the real Lepton parser on small frames
	}
	d.mp = motion.NewMotionProcessor(parser, pMotionConf(c.Cfg.Trigger), rc, &config.Location{}, d, motionRec, d.cam, crArg, d.t)
	return d
}

type throttledCounter struct{ d *PDrv }

func (t throttledCounter) WhenThrottled() { t.d.nThrottled++ }

func (d *PDrv) tick(dt time.Duration) {
	if d.tclk != nil {
		d.tclk.now = d.tclk.now.Add(dt)
		d.elapsed += dt
	}
}

// RecordingListener
func (d *PDrv) MotionDetected()   { d.log = append(d.log, PObs{Ev: d.ev, Src: 'L', Call: 'M'}) }
func (d *PDrv) RecordingStarted() { d.log = append(d.log, PObs{Ev: d.ev, Src: 'L', Call: 'S'}) }
func (d *PDrv) RecordingEnded()   { d.log = append(d.log, PObs{Ev: d.ev, Src: 'L', Call: 'E'}) }

func (d *PDrv) fillFrame(f *cptvframe.Frame, id int, level bool) {
	for y := range f.Pix {
		for x := range f.Pix[y] {
			f.Pix[y][x] = fill
		}
	}
	if level {
		f.Pix[1][1] = lvlHigh
	} else {
		f.Pix[1][1] = lvlLow
	}
	f.Status = cptvframe.Telemetry{TimeOn: time.Hour + time.Duration(id)*time.Second, LastFFCTime: time.Minute, FrameCount: id}
}

// parse is the harness FrameParser used in "raw" mode: raw[0] = 1 for a bad frame.
func (d *PDrv) parse(raw []byte, out *cptvframe.Frame, edge int) error {
	id := int(int32(uint32(raw[1]) | uint32(raw[2])<<8 | uint32(raw[3])<<16 | uint32(raw[4])<<24))
	d.fillFrame(out, id, raw[5] == 1)
	if raw[0] == 1 {
		// like the real parsers, a bad frame has already scribbled over the slot when it is rejected
		out.Pix[1][1] = 0
		return &lepton3.BadFrameErr{Cause: errors.New("harness bad frame")}
	}
	return nil
}

const badIDBase = 1 << 30

// leptonRaw builds a raw Lepton frame (telemetry block + big-endian pixels) for the 4x4 camera.
func (d *PDrv) leptonRaw(bad bool, id int, level bool) []byte {
	f := cptvframe.NewFrame(d.cam)
	d.fillFrame(f, id, level)
	if bad {
		f.Pix[1][1] = 0
		f.Status.FrameCount = badIDBase + (-id)
	}
	return EncodeLepton(f)
}

// EncodeLepton is the harness's own encoder of the documented Lepton raw layout: a 640-byte
// telemetry block of 16-bit big-endian words (32-bit values: low word first) then big-endian pixels.
func EncodeLepton(f *cptvframe.Frame) []byte {
	const telemetryBytes = 640
	ny, nx := len(f.Pix), len(f.Pix[0])
	raw := make([]byte, telemetryBytes+2*nx*ny)
	put16 := func(word int, v uint16) { raw[2*word], raw[2*word+1] = byte(v>>8), byte(v) }
	put32 := func(word int, v uint32) { put16(word, uint16(v)); put16(word+1, uint16(v>>16)) }
	put32(1, uint32(f.Status.TimeOn/time.Millisecond))
	put32(20, uint32(f.Status.FrameCount))
	put16(22, f.Status.FrameMean)
	put16(24, uint16(int(f.Status.TempC*100+0.5)+27315))
	put16(29, uint16(int(f.Status.LastFFCTempC*100+0.5)+27315))
	put32(30, uint32(f.Status.LastFFCTime/time.Millisecond))
	i := telemetryBytes
	for y := 0; y < ny; y++ {
		for x := 0; x < nx; x++ {
			raw[i], raw[i+1] = byte(f.Pix[y][x]>>8), byte(f.Pix[y][x])
			i += 2
		}
	}
	return raw
}

func (d *PDrv) raw(bad bool, id int, level bool) []byte {
	if d.cfg.Via == "lepton" {
		return d.leptonRaw(bad, id, level)
	}
	r := make([]byte, 6)
	if bad {
		r[0] = 1
	}
	u := uint32(int32(id))
	r[1], r[2], r[3], r[4] = byte(u), byte(u>>8), byte(u>>16), byte(u>>24)
	if level {
		r[5] = 1
	}
	return r
}

// Apply applies one event token; returns the Process error for frame events in raw mode.
func (d *PDrv) Apply(tok string) (perr error) {
	kind := tok[0]
	clock := 0
	d.curDisk, d.curStart = false, false
	d.curFault = nil
	for i := 1; i < len(tok); i++ {
		switch tok[i] {
		case 'f':
			if d.curFault == nil {
				d.curFault = map[[2]byte]bool{}
			}
			d.curFault[[2]byte{tok[i+1], tok[i+2]}] = true
			i += 2
		case 'd':
			d.curDisk = true
		case 's':
			d.curStart = true
		case 'c':
			j := i + 1
			for j < len(tok) && tok[j] >= '0' && tok[j] <= '9' {
				j++
			}
			clock, _ = strconv.Atoi(tok[i+1 : j])
			i = j - 1
		}
	}
	d.ev = len(d.evKind)
	d.now = dayBase.Add(clockChoices(d.cfg.Window)[clock])
	d.evKind = append(d.evKind, kind)
	d.evOpen = append(d.evOpen, windowOpen(d.cfg.Window, d.now))
	d.evDisk = append(d.evDisk, d.curDisk)
	d.evStart = append(d.evStart, d.curStart)
	defer func() {
		if p := recover(); p != nil {
			d.panicMsg = fmt.Sprintf("event %d (%s): panic: %v", d.ev+1, tok, p)
			perr = errors.New(d.panicMsg)
		}
	}()
	switch kind {
	case 'J':
		d.evID = append(d.evID, 0)
		if t := d.cfg.Throttle; t != nil {
			d.tick(time.Duration(10 * float64(t.BucketSecs*d.cfg.FPS) * 1e9 * float64(t.RefillSecs) / float64((d.cfg.Min+d.cfg.Preview)*d.cfg.FPS)))
		}
	case '1', '0':
		d.tick(time.Second / time.Duration(d.cfg.FPS))
		if kind == '1' {
			d.level = !d.level
		}
		d.nextID++
		d.evID = append(d.evID, d.nextID)
		if d.cfg.Via == "raw" || d.cfg.Via == "lepton" {
			err := d.mp.Process(d.raw(false, d.nextID, d.level))
			d.procErr = append(d.procErr, err)
			return err
		}
		f := cptvframe.NewFrame(d.cam)
		d.fillFrame(f, d.nextID, d.level)
		d.mp.ProcessFrame(f)
	case 'B':
		d.badCount++
		d.evID = append(d.evID, -d.badCount)
		if d.cfg.Via != "raw" && d.cfg.Via != "lepton" {
			panic("bad frames need via=raw or lepton")
		}
		err := d.mp.Process(d.raw(true, -d.badCount, d.level))
		d.procErr = append(d.procErr, err)
		return err
	case 'R':
		d.evID = append(d.evID, 0)
		d.mp.Reset(d.cam)
	case 'T':
		d.evID = append(d.evID, 0)
		d.mp.StartSnapshot = true // what newSnapshotRecording() does under its mutex
	default:
		panic("unknown event " + tok)
	}
	return nil
}

// Run applies all events of a case; stops at a panic.
func (d *PDrv) Run(events []string) {
	for _, e := range events {
		d.tokens = append(d.tokens, e)
		d.Apply(e)
		if d.panicMsg != "" {
			return
		}
	}
}

// ---- trace analysis shared by the oracles

// PRec is one motion-sink recording reconstructed from the observation log.
type PRec struct {
	StartEv int
	Trigger int // id of the frame being processed when StartRecording succeeded
	IDs     []int
	IDEv    []int // event index of each write
	StopEv  int   // -1 while open
	Thr     uint16
	BG      *cptvframe.Frame
}

// motionOf returns per event whether MotionDetected was observed.
func (d *PDrv) motionOf() []bool {
	m := make([]bool, len(d.evKind))
	for _, o := range d.log {
		if o.Src == 'L' && o.Call == 'M' {
			m[o.Ev] = true
		}
	}
	return m
}

// recordings reconstructs the recordings seen by one sink.
func (d *PDrv) recordings(src byte) []*PRec {
	var out []*PRec
	var cur *PRec
	for _, o := range d.log {
		if o.Src != src {
			continue
		}
		switch o.Call {
		case 's':
			if o.OK {
				cur = &PRec{StartEv: o.Ev, Trigger: d.evID[o.Ev], StopEv: -1, Thr: o.Thr, BG: o.BG}
				out = append(out, cur)
			}
		case 'w':
			if cur != nil && cur.StopEv < 0 {
				cur.IDs = append(cur.IDs, o.ID)
				cur.IDEv = append(cur.IDEv, o.Ev)
			}
		case 'x':
			if cur != nil && cur.StopEv < 0 {
				cur.StopEv = o.Ev
			}
		}
	}
	return out
}

// sinkTrace renders the call trace of one sink compactly (for outcome hashing and messages).
func (d *PDrv) sinkTrace(src byte) string {
	var sb strings.Builder
	for _, o := range d.log {
		if o.Src != src {
			continue
		}
		switch o.Call {
		case 'k':
			sb.WriteString("k")
		case 's':
			sb.WriteString("S")
		case 'w':
			fmt.Fprintf(&sb, "%d", o.ID)
		case 'x':
			sb.WriteString("X")
		case 'M':
			fmt.Fprintf(&sb, "M%d", o.Ev)
		case 'E', 'S' + 0:
		}
		if !o.OK && o.Src != 'L' {
			sb.WriteString("!")
		}
		sb.WriteByte(' ')
	}
	return sb.String()
}

// traceHash hashes the motion-sink trace and motion callbacks without building strings.
func (d *PDrv) traceHash(seed uint64) uint64 {
	h := seed ^ 14695981039346656037
	mix := func(x uint64) { h ^= x; h *= 1099511628211 }
	for _, o := range d.log {
		if o.Src == 'L' && o.Call != 'M' {
			continue
		}
		mix(uint64(o.Src))
		mix(uint64(o.Call))
		mix(uint64(int64(o.ID)))
		mix(uint64(b2i(o.OK)))
		mix(uint64(o.Ev))
	}
	return h
}
