package checks

import (
	"encoding/json"
	"fmt"

	"verifkit/ev"
)

type c07Case struct {
	Cfg    DCfg     `json:"cfg"`
	Frames []DFrame `json:"frames"`
}

func runC07(c c07Case) (string, string, []bool) {
	got := detectStream(c.Cfg, c.Frames)
	want := refDetect(c.Cfg, c.Frames)
	for i := range got {
		if got[i] != want[i] {
			kind := "missed"
			if got[i] {
				kind = "spurious"
			}
			extra := ""
			if p := lastDetectPanic.Load(); p != nil && got[0] {
				kind, extra = "panic", fmt.Sprintf(" (the detector panicked: %v)", p)
			}
			return "C07:" + kind, fmt.Sprintf("%+v stream %s: frame %d reported motion=%v, the thresholds say %v%s", c.Cfg, fmtStream(c.Frames), i+1, got[i], want[i], extra), got
		}
	}
	return "", "", got
}

func c07Replay(cj []byte) []ev.Violation {
	var c c07Case
	if err := json.Unmarshal(cj, &c); err != nil {
		panic(err)
	}
	if sig, msg, _ := runC07(c); sig != "" {
		return []ev.Violation{{Sig: sig, Msg: msg, Case: c}}
	}
	return nil
}

const (
	c07T     = 1000
	c07Delta = 10
)

var c07Alpha = []uint16{c07T, c07T - 1, c07T + 1, c07T + c07Delta, c07T + c07Delta + 1, c07T + 2*c07Delta + 2, 0, 1, 65535}

type c07Res struct{ x, y, edge int }

func c07Cfgs(res c07Res, counts []int, gaps []int) []DCfg {
	var out []DCfg
	for _, g := range gaps {
		for _, cnt := range counts {
			for _, one := range []bool{true, false} {
				for _, warm := range []bool{false, true} {
					out = append(out, DCfg{ResX: res.x, ResY: res.y, Edge: res.edge, T: c07T, Delta: c07Delta, Count: cnt, Gap: g, OneDiff: one, Warmer: warm})
				}
			}
		}
	}
	return out
}

func interiorPixels(c DCfg) [][2]int {
	var out [][2]int
	for y := 0; y < c.ResY; y++ {
		for x := 0; x < c.ResX; x++ {
			if c.interior(y, x) {
				out = append(out, [2]int{y, x})
			}
		}
	}
	return out
}

type c07Job struct {
	cfg    DCfg
	active [][2]int // pixels that vary
	alpha  []uint16
	L      int
	resets bool // insert one reset at every position
}

func c07Run(r *ev.Run) {
	L1, L2 := 4, 3
	alpha1 := c07Alpha[:7]
	if r.Thorough() {
		L1, L2 = 4, 4
		alpha1 = c07Alpha
	}
	r.Rule = fmt.Sprintf("real detector (NewMotionDetector+Detect), fixed threshold T=%d, delta %d, FFC-free telemetry; value sweep: every sequence of %d frames with one varying interior pixel over %d boundary values (T-1,T,T+1,T+d,T+d+1,T+2d+2,0,1,65535) at every interior position, every sequence of %d frames with two varying pixels over 4 values for every pixel pair, and all-interior binary images, for resolutions 4x3/3x4/5x4 (edge 1) and 2x2/3x2 (edge 0), gap {1,2}, count-thresh {1,2,#interior}, warmer-only x one-diff; bounds sweep: temp-thresh-min/max set (below, above, around T) with the fixed threshold; phase sweep: one beacon pixel, every binary sequence of length 2(gap+1)+3 for gap 1..4 with a camera reset at every position. Oracle: transcription of the statement. Non-trivial = stream with at least one motion frame.", c07T, c07Delta, L1, len(alpha1), L2)
	r.Assumptions = []string{"pixel values outside the boundary alphabet and images larger than 5x4 are not enumerated"}
	var jobs []c07Job
	ress := []c07Res{{4, 3, 1}, {3, 4, 1}, {5, 4, 1}, {2, 2, 0}, {3, 2, 0}}
	for _, rs := range ress {
		base := DCfg{ResX: rs.x, ResY: rs.y, Edge: rs.edge}
		ip := interiorPixels(base)
		for _, cfg := range c07Cfgs(rs, []int{1}, []int{1, 2}) {
			for _, p := range ip {
				jobs = append(jobs, c07Job{cfg: cfg, active: [][2]int{p}, alpha: alpha1, L: L1})
			}
		}
		for _, cfg := range c07Cfgs(rs, []int{1, 2}, []int{1, 2}) {
			for a := 0; a < len(ip); a++ {
				for b := a + 1; b < len(ip); b++ {
					jobs = append(jobs, c07Job{cfg: cfg, active: [][2]int{ip[a], ip[b]}, alpha: []uint16{c07T, c07T + c07Delta, c07T + c07Delta + 1, c07T + 2*c07Delta + 2}, L: L2})
				}
			}
		}
		if len(ip) <= 6 {
			for _, cfg := range c07Cfgs(rs, []int{1, 2, len(ip)}, []int{1}) {
				jobs = append(jobs, c07Job{cfg: cfg, active: ip, alpha: []uint16{c07T, c07T + c07Delta + 1}, L: 3})
			}
		}
	}
	for gap := 1; gap <= 4; gap++ {
		for _, one := range []bool{true, false} {
			for _, warm := range []bool{false, true} {
				cfg := DCfg{ResX: 3, ResY: 3, Edge: 1, T: c07T, Delta: c07Delta, Count: 1, Gap: gap, OneDiff: one, Warmer: warm}
				jobs = append(jobs, c07Job{cfg: cfg, active: [][2]int{{1, 1}}, alpha: []uint16{c07T + 5, c07T + 5 + c07Delta + 1}, L: 2*(gap+1) + 3, resets: true})
			}
		}
	}
	// temp-thresh-min/max are meaningless with a fixed threshold but legal: they must not move it
	for _, mm := range [][2]uint16{{c07T + 20, 0}, {0, c07T - 20}, {c07T - 30, c07T + 30}} {
		for _, one := range []bool{true, false} {
			cfg := DCfg{ResX: 4, ResY: 3, Edge: 1, T: c07T, Delta: c07Delta, Count: 1, Gap: 1, OneDiff: one, TMin: mm[0], TMax: mm[1]}
			for _, p := range interiorPixels(cfg) {
				jobs = append(jobs, c07Job{cfg: cfg, active: [][2]int{p}, alpha: []uint16{c07T - 25, c07T - 1, c07T, c07T + c07Delta + 1, c07T + 15, c07T + 25 + c07Delta + 1, c07T + 40}, L: 3})
			}
		}
	}
	r.Bounds["jobs"] = len(jobs)
	r.Parallel(len(jobs), func(w *ev.Worker, i int) {
		j := jobs[i]
		n := len(j.active) * j.L
		idx := make([]int, n)
		frames := make([]DFrame, j.L)
		for k := range frames {
			frames[k].Pix = grid(j.cfg, c07T+3)
			// make the border noisy: it must not matter
			for y := 0; y < j.cfg.ResY; y++ {
				for x := 0; x < j.cfg.ResX; x++ {
					if !j.cfg.interior(y, x) {
						frames[k].Pix[y][x] = uint16(7919 * (k + 1) * (y*j.cfg.ResX + x + 1))
					}
				}
			}
		}
		for {
			for k := 0; k < n; k++ {
				p := j.active[k%len(j.active)]
				frames[k/len(j.active)].Pix[p[0]][p[1]] = j.alpha[idx[k]]
			}
			resetPositions := []int{-1}
			if j.resets {
				for p := 1; p < j.L; p++ {
					resetPositions = append(resetPositions, p)
				}
			}
			for _, rp := range resetPositions {
				for k := range frames {
					frames[k].Reset = k == rp
				}
				c := c07Case{Cfg: j.cfg, Frames: frames}
				sig, msg, got := runC07(c)
				w.Evaluations++
				w.Transitions += int64(j.L)
				w.States++
				any := false
				h := uint64(0)
				for k, g := range got {
					if g {
						any = true
						h |= 1 << uint(k)
					}
				}
				w.Outcome(ev.Hash(j.cfg.Gap, j.cfg.OneDiff, j.cfg.Warmer, j.cfg.Count, h, rp))
				if any {
					w.Nontrivial++
				}
				if sig != "" {
					cc := c07Case{Cfg: j.cfg}
					for _, f := range frames {
						cc.Frames = append(cc.Frames, DFrame{Pix: copyGrid(f.Pix), Reset: f.Reset})
					}
					w.Violate(sig, msg, cc, j.L)
				} else if any && w.WantSample() {
					w.Sample(map[string]interface{}{"cfg": j.cfg, "stream": fmtStream(frames), "motion": fmt.Sprint(got)})
				}
			}
			// next index vector
			k := 0
			for k < n {
				idx[k]++
				if idx[k] < len(j.alpha) {
					break
				}
				idx[k] = 0
				k++
			}
			if k == n {
				break
			}
		}
	})
}

func init() { register(&Check{Property: "C07", Run: c07Run, Replay: c07Replay}) }
