package checks

import (
	"encoding/json"
	"fmt"
	"time"

	"github.com/TheCacophonyProject/go-cptv/cptvframe"
	"github.com/TheCacophonyProject/lepton3"

	"verifkit/ev"
)

// Parser level of C13 for the Lepton format (the Boson parser lives in package main and is
// checked by the overlay harness of C13b, see overlay/).

type c13pCase struct {
	Parser string     `json:"parser"`
	X      int        `json:"x"`
	Y      int        `json:"y"`
	Edge   int        `json:"edge"`
	Pix    [][]uint16 `json:"pix"`
	TimeOn uint32     `json:"time_on_ms"`
	FFC    uint32     `json:"last_ffc_ms"`
	Count  uint32     `json:"frame_count"`
	TempK  uint16     `json:"fpa_centik"`
	FFCK   uint16     `json:"ffc_centik"`
}

func runC13p(c c13pCase) (string, string) {
	f := cptvframe.NewFrame(Cam{c.X, c.Y, 9})
	for y := range f.Pix {
		copy(f.Pix[y], c.Pix[y])
	}
	f.Status = cptvframe.Telemetry{TimeOn: time.Duration(c.TimeOn) * time.Millisecond, LastFFCTime: time.Duration(c.FFC) * time.Millisecond, FrameCount: int(c.Count),
		TempC: float64(int(c.TempK)-27315) / 100, LastFFCTempC: float64(int(c.FFCK)-27315) / 100}
	raw := EncodeLepton(f)
	// EncodeLepton rounds temperatures; write the raw centi-kelvin words exactly
	raw[2*24], raw[2*24+1] = byte(c.TempK>>8), byte(c.TempK)
	raw[2*29], raw[2*29+1] = byte(c.FFCK>>8), byte(c.FFCK)
	out := cptvframe.NewFrame(Cam{c.X, c.Y, 9})
	err := lepton3.ParseRawFrame(raw, out, c.Edge)
	wantBad := false
	for y := 0; y < c.Y; y++ {
		for x := 0; x < c.X; x++ {
			onEdge := y < c.Edge || x < c.Edge || y >= c.Y-c.Edge || x >= c.X-c.Edge
			if !onEdge && c.Pix[y][x] == 0 {
				wantBad = true
			}
		}
	}
	_, isBad := err.(*lepton3.BadFrameErr)
	if wantBad != isBad {
		return "C13:parser:lepton:bad-frame-iff-zero-inside-border", fmt.Sprintf("%dx%d edge %d pixels %v: bad-frame error=%v (err=%v), expected %v", c.X, c.Y, c.Edge, c.Pix, isBad, err, wantBad)
	}
	if wantBad {
		return "", ""
	}
	if err != nil {
		return "C13:parser:lepton:valid-frame-rejected", fmt.Sprintf("valid frame rejected: %v", err)
	}
	for y := range c.Pix {
		for x := range c.Pix[y] {
			if out.Pix[y][x] != c.Pix[y][x] {
				return "C13:parser:lepton:pixel", fmt.Sprintf("pixel (%d,%d) decoded as %d, sent %d", y, x, out.Pix[y][x], c.Pix[y][x])
			}
		}
	}
	st := out.Status
	if st.TimeOn != time.Duration(c.TimeOn)*time.Millisecond || st.LastFFCTime != time.Duration(c.FFC)*time.Millisecond || st.FrameCount != int(c.Count) ||
		st.TempC != float64(int(c.TempK)-27315)/100 || st.LastFFCTempC != float64(int(c.FFCK)-27315)/100 {
		return "C13:parser:lepton:telemetry", fmt.Sprintf("telemetry decoded as %+v, sent time-on %dms last-ffc %dms count %d fpa %d ffc-fpa %d (centi-K)", st, c.TimeOn, c.FFC, c.Count, c.TempK, c.FFCK)
	}
	return "", ""
}

func c13ParserReplay(cj []byte) []ev.Violation {
	var c c13pCase
	if err := json.Unmarshal(cj, &c); err != nil {
		panic(err)
	}
	if sig, msg := runC13p(c); sig != "" {
		return []ev.Violation{{Sig: sig, Msg: msg, Case: c}}
	}
	return nil
}

func c13Parser(r *ev.Run) {
	w := r.Serial()
	vals := []uint16{1, 0x00FF, 0x0100, 0x7FFF, 0x8000, 0xFFFF}
	mk := func(x, y int, v uint16) [][]uint16 {
		p := make([][]uint16, y)
		for i := range p {
			p[i] = make([]uint16, x)
			for j := range p[i] {
				p[i][j] = v
			}
		}
		return p
	}
	try := func(c c13pCase) {
		w.Evaluations++
		w.Transitions++
		w.Extra["parser_cases"]++
		if sig, msg := runC13p(c); sig != "" {
			w.Violate(sig, msg, c, c.X*c.Y)
		}
	}
	for _, res := range [][2]int{{4, 3}, {5, 4}, {6, 6}} {
		for edge := 0; edge <= 2; edge++ {
			if 2*edge >= imin(res[0], res[1]) {
				continue
			}
			base := c13pCase{Parser: "lepton", X: res[0], Y: res[1], Edge: edge, TimeOn: 3600000, FFC: 60000, Count: 7, TempK: 30000, FFCK: 29000}
			// every position of a single zero, and every pair of zeros
			for a := 0; a < res[0]*res[1]; a++ {
				for _, fillv := range []uint16{0x00FF, 0x0100, 1} { // neighbours with a zero high or low byte
					cf := base
					cf.Pix = mk(res[0], res[1], fillv)
					cf.Pix[a/res[0]][a%res[0]] = 0
					try(cf)
				}
				c := base
				c.Pix = mk(res[0], res[1], 3000)
				c.Pix[a/res[0]][a%res[0]] = 0
				try(c)
				for b := a + 1; b < res[0]*res[1]; b++ {
					c2 := base
					c2.Pix = mk(res[0], res[1], 3000)
					c2.Pix[a/res[0]][a%res[0]] = 0
					c2.Pix[b/res[0]][b%res[0]] = 0
					try(c2)
				}
			}
			// valid frames: every pixel position x boundary value (byte order visible), rest distinct
			for a := 0; a < res[0]*res[1]; a++ {
				for _, v := range vals {
					c := base
					c.Pix = mk(res[0], res[1], 0x1234)
					c.Pix[a/res[0]][a%res[0]] = v
					try(c)
				}
			}
		}
	}
	// telemetry words over boundary values
	u32 := []uint32{0, 1, 9999, 10000, 0x0000FFFF, 0x00010000, 0x7FFFFFFF, 0xFFFFFFFF}
	u16 := []uint16{0, 1, 27315, 30000, 0x7FFF, 0x8000, 0xFFFF}
	for _, a := range u32 {
		for _, b := range u32 {
			for _, cnt := range []uint32{0, 1, 0x00010000, 0x3FFFFFFF} {
				for _, k := range u16 {
					c := c13pCase{Parser: "lepton", X: 4, Y: 3, Edge: 1, TimeOn: a, FFC: b, Count: cnt, TempK: k, FFCK: u16[(int(k)+3)%len(u16)], Pix: mk(4, 3, 0x0102)}
					try(c)
				}
			}
		}
	}
}
